#!/usr/bin/env python3
"""Writes /verif/MANIFEST.json from the table below (kept in one place so that it stays valid and current)."""
import json
import os

VERIF = os.path.dirname(os.path.dirname(os.path.abspath(__file__)))

CHAIN_NOTE = ('Bounded: the exhaustive part covers the constants recorded in the evidence file (mc_constants); beyond them only sampled behaviours. '
              'Trusted: TLC 1.8.0 + CommunityModules, the Go toolchain, Cosmos SDK/CometBFT/IAVL as pinned, secp256k1 unforgeability, and the harness projection '
              '(raw store iteration + dictionary; self-tested by bin/selftest). Gas exhaustion and sequence overflow are outside every config.')

TECH = 'TLA+ model checking (TLC) of Panacea.tla/Props.tla + trace validation (Trace.tla) of TLC-generated behaviours executed on the real application'
HOW = (' TLC exhausts the bounded model (all interleavings within the constants recorded in evidence) and checks the formulas on every transition; '
       'the SAME formulas are then evaluated by TLC on the states, results and query answers observed while the real application (real signatures, ante handler, '
       'DeliverTx/EndBlock/Commit, restart on the same DB, genesis export + InitChain) executes TLC-generated behaviours: simulated behaviours of a larger configuration, '
       'and state-graph tours that re-create every distinct state of a small configuration and fire the whole transaction alphabet there.')


def chain(summary, ref):
    return dict(tech=TECH, text=summary + HOW, ref=ref)


CLAIMED = {
    'C01': chain('Append-only/immutable/dense/acknowledged-forever as action properties and invariants over the record store and the Record query.', 'DESIGN.md section 6 C01'),
    'C02': chain('Write authorisation as an action property over the pre-state, the signer set of the transaction (chosen independently of the actors named in the messages, '
                 'with/without fee payer, through authz Exec) and the post-state; rejected attempts must leave AOL state unchanged.', 'DESIGN.md section 6 C02'),
    'C13': chain('Counters equal cardinalities (invariant on the raw store) and every pagination request shape (key/offset, limits, reverse, count_total) of Topics/Writers yields '
                 'exactly the stored items once, evaluated on the real answers after every step.', 'DESIGN.md section 6 C13'),
    'C15': chain('On every delivered custom-module transaction (1-2 messages, failing at any position, fee 0/1, every signer/fee-payer arrangement) balances change only by the fee '
                 'from the stated payer to the fee collector, supply is unchanged, and a failing transaction leaves custom state unchanged.', 'DESIGN.md section 6 C15'),
    'C03': chain('The stored document/sequence of a DID changes only through messages whose proof verifies against a current authentication key of the authorising document '
                 '(formula written independently of the handler; the relaying account does not occur in it); alphabet: documents spanning the key-placement categories, '
                 'proofs by any key over any payload and stale/current/future sequences, real secp256k1 signatures.', 'DESIGN.md section 6 C03'),
    'C04': chain('Sequence arithmetic per accepted message, equality of the queried sequence with the stored one, and NoReplay: a history variable holds every accepted message and '
                 'no accepted message may be accepted again (byte-identical inner message in a fresh transaction).', 'DESIGN.md section 6 C04'),
    'C05': chain('Status automaton absent -> active -> tombstone with tombstone absorbing, across transactions, clean restarts and genesis export/import (actions of the specification '
                 'enabled at every block boundary), and the NotFound answers of the read operation.', 'DESIGN.md section 6 C05'),
    'C11': chain('Invariant: an active entry under d has document id d, and the read operation answers with a document about d; the DID field, document id and signed payload are '
                 'chosen independently, including a hostile twin DID that differs from another only in the case of one letter.', 'DESIGN.md section 6 C11'),
    'C06': chain('Denom and token cells change only through an authorised message of the then-current owner (pre-state owner, signer set chosen independently of the actor, '
                 'authz Exec); refused requests leave denoms, tokens, owner index and supply unchanged.', 'DESIGN.md section 6 C06'),
    'C12': chain('Token metadata immutable after mint, every token in an existing denom, owner index and supply counter equal to the tokens, and every listing '
                 '(PNFT, PNFTs, PNFTsByDenomOwner, Denom, Denoms paged, DenomsByOwner) equal to the single-item view, evaluated on the real answers; identifier alphabet includes '
                 'prefix-related names, "/" and NUL-bearing ids.', 'DESIGN.md section 6 C12'),
    'C07': chain('On every EndBlock step: spendable balance of the burn address drops to zero, supply shrinks by exactly that per denomination, nobody else changes, block not halted, '
                 'all crisis invariants hold (asserted on the real keeper); plus the accounting identity as an invariant. Deposits by Send/MultiSend/vesting creation, two denominations, '
                 'amounts 0/1/7/1000 in units of 1 and 10^30, minting on and off; plus the route that needs no transaction in the arrival block: a governance community-pool spend to the burn address '
                 '(GovSchedule in the specification, realised by real fund/submit/vote transactions; executed by x/gov inside EndBlock) must be burned in the same EndBlock.', 'DESIGN.md sections 0.2 and 6 C07'),
    'C08': chain('ExportImportBegin is an action enabled at every block boundary of histories over all three custom modules; on the real app: export twice (byte equality), module '
                 'ValidateGenesis, InitChain on a fresh app, every custom query before/after, re-export equality, raw store equality. Genesis.tla transcribes export/validate/import of the three modules: '
                 'TLC checks import(export(s)) = s on every reachable state and Trace.tla checks that the REAL exported genesis is Genesis!Gen of the observed state; histories include a registry with 150 bulk entries.', 'DESIGN.md sections 0.1 and 6 C08'),
    'C10': dict(tech='TLA+ model checking (TLC) of Node.tla enumerating all crash/restart schedules + trace validation (NodeTrace.tla) of each schedule executed on the real application against a never-stopped twin',
                text='Node.tla models the ABCI life cycle of one node with Crash enabled in every phase and Restart on the same database; TLC checks that the database always equals the '
                     'never-stopped twin and enumerates EVERY complete schedule (<=2 crashes) for small block shapes, plus one-crash schedules around rolled-back multi-message transactions. '
                     'Each schedule is executed on the real app (drop the app object without Commit, app.New on the same DB) with TLC-simulated Panacea block histories; NodeTrace.tla checks '
                     'every logged event is the Node action of that name and that height, app hash, store digest and every DeliverTx result equal the twin.',
                ref='DESIGN.md section 6 C10',
                note='Crash = loss of the process between ABCI calls (MemDB survives); torn writes inside Commit are out of scope. One known finding in the pinned cosmos-sdk (pre-ante gasUsed) is listed in known_findings.json. The application is constructed as the node does (app.New with loadLatest=true) and the twin is never restarted.'),
    'C19': dict(tech='TLA+ model checking (TLC): Upgrades.tla on constants extracted from the code (static) + Node.tla schedules with the planned upgrade, validated by NodeTrace.tla on the real application (dynamic)',
                text='Static: Upgrades.tla walks the ordered descriptors (compiled app.Upgrades) from the baseline declared by the first handler to the mounted store set (app.GetKVStoreKey) and checks '
                     'each step adds only absent and deletes only present stores and that the final set equals the mounted one. Dynamic: every crash/restart schedule of Node.tla (restart before, at, '
                     'after the upgrade height, with and without the upgrade-info.json of the halted old binary) is executed on a populated real chain with the v2.2.1 plan; the upgrade block must '
                     'complete, done-height and module version map be recorded, the custom stores equal those of a chain that never upgraded, and every restart must load.',
                ref='DESIGN.md section 6 C19',
                note='Only the pinned binary exists: the old binary halting at the upgrade height is emulated (upgrade-info.json written by the harness). Earlier upgrades are covered by the static part only. '
                     'NoStoreThen = {vesting, genutil, crisis} is a trusted constant.'),
    'C09': dict(tech='TLA+ model checking (TLC) of Replicas.tla enumerating all noise schedules + trace validation (ReplicasTrace.tla) of two real replicas, one in a separate GOMAXPROCS=1 process',
                text='In the specification CheckTx/Simulate/Query/clean-restart noise leaves the replicated state untouched by construction (that IS the property); TLC enumerates every schedule of noise '
                     '(which, where, how often). The deciding step is the binding: for each job two different schedules are executed on two independently constructed real application instances - '
                     'replica B in another OS process started later with GOMAXPROCS=1 - over TLC-simulated block histories in which an accepted transaction is left out and only checked/simulated '
                     '(alone and merged with its successors), and from every valid genesis value enumerated by GenesisMC.tla (zero timestamps, tombstones, legacy entries, inconsistent counters); ReplicasTrace.tla compares app hash, per-transaction code/data/gas/events, EndBlock events, store digest and ABCI query answers at every height.',
                ref='DESIGN.md section 6 C09',
                note='Hardware parallelism is varied only through GOMAXPROCS and process identity; other CPU architectures are out of reach. Quick tier samples the enumerated schedules (thorough uses thousands). The pre-ante gasUsed finding of C10 is also seen here (restarted vs never-restarted replica) and listed for C09 as well.'),
    'C20': dict(tech='TLA+ model checking (TLC): KeyStoreLocks.tla on lock programs measured from the real key store (deadlocks replayed with scheduler gates), Snapshot.tla + SnapshotTrace.tla on concurrent real runs; go -race as auxiliary detector',
                text='Key store: hooks (build tag verif) report each mutex acquisition; the harness measures the lock program of every public operation path, TLC explores all interleavings of 3 '
                     'concurrent calls under Go RWMutex semantics (writer preference); a model deadlock is replayed on the real key store with gates and only a confirmed hang is a violation. '
                     'Snapshot reads: Snapshot.tla proves the interval rule for a versioned store; one executor + 8 reader goroutines (gRPC query path, current and historical heights) + mempool noise run '
                     'on the real app, events ordered by an atomic sequence number, and SnapshotTrace.tla checks every finished query (served height in the allowed interval, answer equal to the committed '
                     'digest of that height, equal answers for equal heights). Data races cannot be expressed in TLA+: the thorough tier runs the same schedules and a ValidateBasic/GetSignBytes sweep under -race.',
                ref='DESIGN.md section 6 C20',
                note='The data-race clause is decided by the Go race detector (auxiliary, thorough tier only), not by the specification. Consensus/mempool ABCI calls are serialised like the CometBFT local client.'),
    'C14': dict(tech='TLA+ model checking (TLC) of SignBytes.tla over all ordered message pairs + validation (SignBytesTrace.tla) of the REAL sign bytes of every message of the alphabet',
                text='SignBytes.tla gives, per sign mode, the structure of what is signed (DIRECT/DIRECT_AUX: type URL + fields; LEGACY_AMINO_JSON: type-less JSON of the non-empty fields for aol/did, '
                     'unavailable for pnft) over the message alphabet of MC.tla (14 types, every field from a small set including the empty value); TLC checks injectivity over all ordered pairs '
                     'and that amino collisions occur only in the recorded type-less classes. The harness computes the real sign bytes of every message in the three modes (3x in-process, plus a '
                     'GOMAXPROCS=1 process); SignBytesTrace.tla checks that real collisions are exactly the predicted ones: any other collision, or a nondeterministic result, is a violation.',
                ref='DESIGN.md section 6 C14',
                note='Finite field alphabet (including empty optional fields), not all strings. One known finding (type-less amino JSON of aol/did messages) is listed in known_findings.json and re-observed on every run.'),
    'C16': dict(tech='TLA+ case enumeration with oracle (TLC on Shapes.tla: baseline, all single and pairwise field-shape deviations) + validation (ShapesTrace.tla) of the real ValidateBasic / DeliverTx outcome of every case',
                text='Shapes.tla transcribes the PUBLISHED limits as a classification of field shapes (lengths in bytes around every boundary, multi-byte/control/separator characters, malformed addresses, '
                     'DID/document/method-id/key/relationship/context/controller/service shapes) and TLC enumerates ~9,600 cases for the 14 message types. Every case is concretised, encoded and decoded, '
                     'validated by the real ValidateBasic and pushed through DeliverTx (every 7th also inside authz.MsgExec); ShapesTrace.tla recomputes the oracle verdict from the logged labels and '
                     'demands accept/reject agreement, that rejected messages never get past the stateless stage nor change state, and that nothing outside the limits is found in the stores.',
                ref='DESIGN.md section 6 C16',
                note='Exhaustive over a finite shape lattice, not all byte strings. Readings taken where the published text is silent are listed in the header of Shapes.tla; shapes it does not settle are "any" (totality only).'),
    'C17': dict(tech='TLA+ case enumeration (TLC on Shapes.tla, message + query + key-store-file shapes) + validation (ShapesTrace.tla, Trace.tla) that no real entry point panics; chain-level behaviours monitored for panics/halts',
                text='The Shapes.tla lattice is extended with absurd shapes for the 12 query types (over-long/NUL/invalid-UTF-8 fields, extreme offsets, hostile pagination, nil requests, ABCI and direct paths) '
                     'and key-store files (dklen/c/iv/salt/mac/ciphertext/version/kdf/prf/json/password shapes); every case runs under recover through ValidateBasic, GetSigners, DeliverTx, the query '
                     'handlers and KeyStore.Load; additionally TLC-simulated chain behaviours with zero/dust/huge deposits and vesting at the burn address are replayed and every ABCI call (notably EndBlock) '
                     'is monitored. A recovered panic, ABCI code 111222 or a halted block is the violation.',
                ref='DESIGN.md section 6 C17',
                note='Finite shape lattice (single and pairwise deviations from a baseline); not every byte string that decodes.'),
    'C18': dict(tech='TLA+ model checking (TLC) of CompKey.tla over a scaled domain (all tuples, all ordered pairs, all byte strings) + validation (CompKeyTrace.tla) of the real codec against the unscaled specification functions',
                text='CompKey.tla defines Encode/PartialEncode/Decode/string form for arbitrary bytes and lengths. TLC checks round trip, injectivity, prefix-exactness, rejection of over-long components, '
                     'decoder totality/no-trailing-garbage and the string form exhaustively with MaxLen=2 over a byte alphabet that contains the length values. The real compkey functions are then run on '
                     'every tuple and byte string of that domain, on real-size boundaries (lengths 0..1000 around 255/256), on typed x/aol keys with legal and illegal components, and on validator-admitted '
                     'topic names through the genesis string form; CompKeyTrace.tla (MaxLen=255) demands equality with the specification functions on every observation.',
                ref='DESIGN.md section 6 C18',
                note='The exhaustive part is scaled (MaxLen 2 for 255); the real bound is covered by boundary cases.'),
}

PENDING_REASON = 'check not built yet in this round of work (planned in DESIGN.md section 11); no claim is made until its machinery exists'


def main():
    props = [json.loads(l) for l in open(os.path.join(VERIF, 'properties.jsonl'))]
    checks = []
    na = []
    for p in props:
        pid = p['id']
        if pid in CLAIMED:
            c = CLAIMED[pid]
            checks.append(dict(
                property_id=pid,
                quick_cmd='bin/check %s --tier quick' % pid,
                thorough_cmd='bin/check %s --tier thorough' % pid,
                evidence_file='/verif/evidence/%s.json' % pid,
                replay_cmd_template='bin/check --replay {path}',
                engine=c.get('engine', 'panacea-tla'),
                level_claimed=dict(category=c.get('cat', 'model_checking'), text=c['text'], design_ref=c['ref']),
                level_note=c.get('note', CHAIN_NOTE),
                technique=c['tech']))
        else:
            na.append(dict(property_id=pid, reason=NA.get(pid, PENDING_REASON)))
    m = dict(
        version=1,
        setup_cmd='bin/setup',
        hooks=dict(guard='verif', enable='go build -tags verif (the harness module replaces github.com/medibloc/panacea-core/v2 with /repo)',
                   baseline_off_cmd="cd /repo && GOFLAGS=-mod=mod GOPROXY=off GOSUMDB=off GOTOOLCHAIN=local go test -vet=off -count=1 ./...",
                   source_commits=HOOK_COMMITS, add_only=True),
        engines=[dict(name='panacea-tla', path='/verif/spec', serves_properties=sorted(CLAIMED),
                      kind_free_text='explicit TLA+ specification (Panacea.tla, Props.tla, MC.tla, Trace.tla and stand-alone modules) checked with TLC; '
                                     'Go harness (/verif/harness) that executes TLC-generated behaviours on the real application and records traces; '
                                     'Python orchestrator (/verif/bin/check)')],
        checks=checks,
        not_applicable=na,
        notes='Fix commits in /repo and known findings are listed in /verif/known_findings.json and DESIGN.md section 7.')
    json.dump(m, open(os.path.join(VERIF, 'MANIFEST.json'), 'w'), indent=1)
    print('MANIFEST.json: %d checks, %d not_applicable' % (len(checks), len(na)))


NA = {}
HOOK_COMMITS = ['793c3992', 'a2d00bce']

if __name__ == '__main__':
    main()
