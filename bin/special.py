"""Checks whose specification is a stand-alone module (Node.tla, Upgrades.tla, Replicas.tla, KeyStoreLocks.tla,
CompKey.tla, SignBytes.tla, Shapes.tla) rather than Panacea.tla."""
import concurrent.futures as cf
import json
import os
import re
import shutil
import subprocess
import time

import configs
import tlaval
import vlib
from vlib import Inconclusive, log

S = set


# ---------------------------------------------------------------------------------------------
# helpers

def mc_wrapper(workdir, name, base, defs):
    """writes MC<name>.tla: EXTENDS base plus operator definitions (for constants that a cfg cannot express)"""
    lines = ['---- MODULE %s ----' % name, 'EXTENDS %s' % base]
    for k, v in defs.items():
        lines.append('%s == %s' % (k, v))
    lines.append('====')
    open(os.path.join(workdir, name + '.tla'), 'w').write('\n'.join(lines) + '\n')


def tla_seq(xs):
    return '<<' + ', '.join(str(x) for x in xs) + '>>'


def tla_strset(xs):
    return '{' + ', '.join('"%s"' % x for x in sorted(xs)) + '}'


def write_raw_cfg(path, lines):
    open(path, 'w').write('\n'.join(lines) + '\n')


def printed_values(out, tag):
    """all values printed by PrintT(<<"TAG", ...>>) in a TLC output (multi-line aware)"""
    vals = []
    for m in re.finditer(r'<<\s*"%s"' % tag, out):
        i = m.start()
        depth = 0
        j = i
        while j < len(out):
            if out.startswith('<<', j):
                depth += 1
                j += 2
                continue
            if out.startswith('>>', j):
                depth -= 1
                j += 2
                if depth == 0:
                    break
                continue
            j += 1
        try:
            vals.append(tlaval.to_json(tlaval.parse(out[i:j])))
        except ValueError:
            pass
    return vals


def partial_failure_histories(work, seed, n, depth=40, maxlen=14):
    """histories that contain a multi-message transaction failing AFTER an earlier message of it succeeded (work that is rolled back),
    with everything before it (so that the state it needs exists) and a few transactions after it. Returns (txs, index of that tx)."""
    pre = configs.preset('C15', 'quick')
    simc = dict(pre['sims'][0]['constants'])
    behs = vlib.simulate(work, simc, n, depth, seed + 77)
    out = []
    for steps in behs:
        dl = [a for a in steps if a.get('name') == 'Deliver']
        for i, a in enumerate(dl):
            if a.get('result') == 'fail' and a.get('failIdx', 0) >= 2 and 1 <= i <= maxlen - 3 and len(dl) >= i + 2:
                out.append(([x['tx'] for x in dl[:i + 4]], i))
                break
    return out


_HIST_CACHE = {}


def sim_histories(work, seed, n, depth=40):
    """block histories for the node-level checks: the Deliver transactions of simulated Panacea behaviours
    (mixed custom modules, one- and two-message transactions, succeeding and failing)."""
    key = (work, seed, n, depth)
    if key in _HIST_CACHE:
        return _HIST_CACHE[key]
    pre = configs.preset('C15', 'quick')
    simc = dict(pre['sims'][0]['constants'], Fees2=S([0]))     # one fee denomination: the histories are block content, not fee experiments
    behs = vlib.simulate(work, simc, n, depth, seed)
    out = _HIST_CACHE[key] = []
    for steps in behs:
        txs = [a['tx'] for a in steps if a.get('name') == 'Deliver']
        if len(txs) >= 3:
            out.append(txs)
    return out


def populated_prefix():
    """One block that leaves something in every custom store: a topic with a writer and records, an active DID, an updated DID, a DEACTIVATED DID (tombstone),
    a denom with two tokens (one transferred) and an empty denom.  Abstract transactions in MC.tla's message format; the harness insists that all succeed."""
    def doc(d, key):
        return dict(id=d, vms=[dict(n='v1', key=key, type='es19')], auth=[dict(n='v1', ded=False, key='', type='')], asrt=[], ex='')

    def T(msg, signer):
        return dict(msgs=[msg], signers=[signer], fee=0, exec='none')

    def create(d, key):
        dc = doc(d, key)
        return T(dict(type='did.Create', did=d, doc=dc, vm='v1', vmDid=d, proof=dict(key=key, data=dc, seq=0), **{'from': 'a1'}), 'a1')
    deact = dict(id='d1', vms=[], auth=[], asrt=[], ex='')
    up = doc('dc', 'k2')
    return [
        T(dict(type='aol.CreateTopic', owner='a1', topic='t1', desc='x'), 'a1'),
        T(dict(type='aol.AddWriter', owner='a1', topic='t1', writer='a2', mon='m', desc='x'), 'a1'),
        T(dict(type='aol.AddRecord', owner='a1', topic='t1', writer='a2', key='k1', val='v1', feePayer='none'), 'a2'),
        T(dict(type='aol.AddRecord', owner='a1', topic='t1', writer='a2', key='', val='', feePayer='none'), 'a2'),
        create('d1', 'k1'), create('dc', 'k1'), create('d2', 'k1'),
        T(dict(type='did.Deactivate', did='d1', vm='v1', vmDid='d1', proof=dict(key='k1', data=deact, seq=0), **{'from': 'a1'}), 'a1'),
        T(dict(type='did.Update', did='dc', doc=up, vm='v1', vmDid='dc', proof=dict(key='k1', data=up, seq=0), **{'from': 'a1'}), 'a1'),
        T(dict(type='pnft.CreateDenom', id='n1', actor='a1', name='x', symbol='S', desc='', uri='', hash='', data=''), 'a1'),
        T(dict(type='pnft.CreateDenom', id='n2', actor='a2', name='y', symbol='S', desc='', uri='', hash='', data=''), 'a2'),
        T(dict(type='pnft.Mint', denom='n1', id='i1', actor='a1', name='x', desc='', uri='u', hash='', data=''), 'a1'),
        T(dict(type='pnft.Mint', denom='n1', id='i2', actor='a1', name='y', desc='', uri='u', hash='', data=''), 'a1'),
        T(dict(type='pnft.Transfer', denom='n1', id='i2', actor='a1', to='a2'), 'a1'),
        # reachable shapes that are easy to forget: a topic whose only writer was removed after it wrote (records, no writers), a blank topic
        # (no description, writers or records: a zero-byte store value), a token burned again (supply counter back to zero)
        T(dict(type='aol.CreateTopic', owner='a1', topic='t2', desc='x'), 'a1'),
        T(dict(type='aol.AddWriter', owner='a1', topic='t2', writer='a2', mon='', desc=''), 'a1'),
        T(dict(type='aol.AddRecord', owner='a1', topic='t2', writer='a2', key='k1', val='v1', feePayer='none'), 'a2'),
        T(dict(type='aol.DeleteWriter', owner='a1', topic='t2', writer='a2'), 'a1'),
        T(dict(type='aol.CreateTopic', owner='a2', topic='tc', desc=''), 'a2'),
        T(dict(type='pnft.Mint', denom='n2', id='i1', actor='a2', name='x', desc='', uri='u', hash='', data=''), 'a2'),
        T(dict(type='pnft.Burn', denom='n2', id='i1', actor='a2'), 'a2'),
    ]


def genesis_values(work):
    """the genesis values of spec/GenesisMC.tla (each checked GenValid by TLC): inputs for 'two nodes that start from the same genesis'"""
    consts = configs.mk(Accts=S(['a1', 'a2']), Dids=S(['d1', 'd2', 'dc']), DocNames=S(['A1']), Keys=S(['k1']), VmNames=S(['v1']))
    cfg = os.path.join(work, 'genesis.cfg')
    vlib.write_cfg(cfg, 'GSpec', consts, (), ['AllValid', 'GenDump'])
    rc, out, wall = vlib.run_tlc(work, 'GenesisMC.tla', 'genesis.cfg', workers=2, heap='2g', timeout=600)
    err = vlib.tlc_failed(out)
    if err:
        raise Inconclusive('GenesisMC.tla: %s\n%s' % (err, out[-2000:]))
    vals = [v[1] for v in printed_values(out, 'GENESIS')]
    uniq = {json.dumps(v, sort_keys=True): v for v in vals}
    return [uniq[k] for k in sorted(uniq)]


def guard_txs():
    """requests that must be REFUSED on the state left by populated_prefix(), each by a different stateful guard"""
    def doc(d, key):
        return dict(id=d, vms=[dict(n='v1', key=key, type='es19')], auth=[dict(n='v1', ded=False, key='', type='')], asrt=[], ex='')

    def T(msg, signer):
        return dict(msgs=[msg], signers=[signer], fee=0, exec='none')
    d2 = doc('d2', 'k1')
    return [
        T(dict(type='pnft.DeleteDenom', id='n1', actor='a1'), 'a1'),                                                       # still holds tokens
        T(dict(type='aol.AddRecord', owner='a1', topic='t1', writer='a1', key='k', val='v', feePayer='none'), 'a1'),     # a1 is not a writer of its own topic
        T(dict(type='aol.CreateTopic', owner='a1', topic='t1', desc=''), 'a1'),                                            # exists
        T(dict(type='did.Create', did='d2', doc=d2, vm='v1', vmDid='d2', proof=dict(key='k1', data=d2, seq=0), **{'from': 'a1'}), 'a1'),   # exists
        T(dict(type='pnft.Mint', denom='n1', id='i1', actor='a1', name='x', desc='', uri='u', hash='', data=''), 'a1'),    # exists
        T(dict(type='pnft.Transfer', denom='n1', id='i2', actor='a1', to='a1'), 'a1'),                                     # handed over to a2 earlier
        T(dict(type='pnft.UpdateDenom', id='n2', actor='a1', name='z', symbol='', desc='', uri='', hash='', data=''), 'a1'),  # a2's denom
    ]


def shape_history(txs, shape):
    out, i = [], 0
    for n in shape:
        out.append(txs[i:i + n])
        i += n
    return out


def run_harness_jobs(work, harness, cmd, jobs, nproc=vlib.NCPU, env=None):
    files = []
    procs = []
    for ci, ch in enumerate(vlib.chunks(jobs, nproc)):
        jf = os.path.join(work, '%s-jobs-%d.ndjson' % (cmd, ci))
        tf = os.path.join(work, '%s-trace-%d.ndjson' % (cmd, ci))
        with open(jf, 'w') as f:
            for j in ch:
                f.write(json.dumps(j) + '\n')
        e = dict(os.environ)
        if env:
            e.update(env)
        procs.append((subprocess.Popen([harness, cmd, jf, tf], stdout=subprocess.PIPE, stderr=subprocess.PIPE, text=True, env=e), tf))
    for p, tf in procs:
        so, se = p.communicate(timeout=3600)
        if p.returncode != 0:
            raise Inconclusive('harness %s failed: %s' % (cmd, se[-3000:]))
        files.append(tf)
    return files


_rep = re.compile(r'<<"(VIOLATION|DRIFT)", "([^"]*)", "([^"]*)", (\d+), (\d+)>>')


def validate_with(work, module, cfgname, trace_files, heap='3g'):
    def one(tf):
        rc, out, wall = vlib.run_tlc(work, module, cfgname, workers=1, heap=heap, timeout=3000, env={'TRACE_FILE': tf})
        return tf, out
    viol, drift, lines = [], [], 0
    with cf.ThreadPoolExecutor(min(vlib.NCPU, len(trace_files) or 1)) as ex:
        for tf, out in ex.map(one, trace_files):
            lines += sum(1 for _ in open(tf))
            err = vlib.tlc_failed(out)
            if err is not None:
                raise Inconclusive('trace validation (%s) did not complete on %s: %s\n%s' % (module, tf, err, out[-3000:]))
            for m in _rep.finditer(out):
                rec = dict(kind=m.group(1), id=m.group(2), run=m.group(3), step=int(m.group(4)), line=int(m.group(5)), file=tf)
                (viol if rec['kind'] == 'VIOLATION' else drift).append(rec)
    return viol, drift, lines


def conclude(pid, tier, seed, t0, viol, drift, cov, assumptions, jobs_by_id, sig_of=None):
    mine = [v for v in viol if v['id'] == pid or v['id'].startswith(pid + ':')]
    others = sorted({v['id'] for v in viol if not (v['id'] == pid or v['id'].startswith(pid + ':'))})
    known = vlib.load_known()
    new, hits = [], []
    for v in mine:
        sig = v['id'].split(':', 1)[1] if ':' in v['id'] else (sig_of(v) if sig_of else v['run'])
        k = [f for f in known['findings'] if f.get('status') == 'known' and f['property'] == pid and f['signature'] == sig]
        (hits if k else new).append((v, sig))
    for sig in sorted({sig for v, sig in hits}):
        desc = [f for f in known['findings'] if f['property'] == pid and f.get('signature') == sig][0].get('what', '')
        print('KNOWN-FINDING: property=%s %s: %s (%d occurrences)' % (pid, sig, desc, len([1 for v, s2 in hits if s2 == sig])))
    for d in drift[:10]:
        print('DRIFT %s run=%s step=%s' % (d['id'], d['run'], d['step']))
    if others:
        print('NOTE: other properties violated on the same traces: %s' % ','.join(others))
    paths, seen = [], set()
    for v, sig in new:
        if v['run'] in seen:
            continue
        seen.add(v['run'])
        paths.append(vlib.save_replay(pid, len(paths), dict(property=pid, signature=sig, first_violating_step=v['step'], job=jobs_by_id.get(v['run']))))
        if len(paths) >= 5:
            break
    cov = dict(cov, conformance_divergences=len(drift), known_findings_seen=len(hits), other_properties_violated=others)
    vlib.write_evidence(pid, tier, seed, cov, time.time() - t0, len(new), assumptions)
    if new:
        for p in paths:
            print('VIOLATION property=%s replay=%s' % (pid, p))
        return 1
    print('OK property=%s tier=%s states=%d traces=%d drift=%d wall=%.0fs' % (pid, tier, cov.get('states', 0), cov.get('traces_validated_against_impl', 0), len(drift), time.time() - t0))
    return 0


# ---------------------------------------------------------------------------------------------
# C10 restart equivalence / C19 upgrades

def node_schedules(work, shapes, max_crashes, upgrade_ats):
    mc_wrapper(work, 'MCNode', 'Node', dict(ShapesC='{' + ', '.join(tla_seq(s) for s in shapes) + '}', UpC='{' + ', '.join(str(u) for u in upgrade_ats) + '}'))
    write_raw_cfg(os.path.join(work, 'node.cfg'), [
        'SPECIFICATION Spec', 'CONSTANTS', '  BlockShapes <- ShapesC', '  MaxCrashes = %d' % max_crashes, '  UpgradeAts <- UpC',
        'INVARIANTS CommittedIsTwin ResumeClean PendingIsNextBlock UpgradeAtHeight ScheduleDump', 'CHECK_DEADLOCK FALSE'])
    rc, out, wall = vlib.run_tlc(work, 'MCNode.tla', 'node.cfg', workers=vlib.NCPU, heap='8g', timeout=1500)
    err = vlib.tlc_failed(out)
    if err:
        raise Inconclusive('Node.tla model checking reported: %s\n%s' % (err, out[-2500:]))
    gen, dist, depth = vlib.parse_mc_summary(out)
    scheds = []
    for v in printed_values(out, 'SCHEDULE'):
        scheds.append(dict(shape=v[1], upgradeAt=v[2], schedule=v[3]))
    return scheds, dist, gen


def node_check(pid, tier, seed):
    t0 = time.time()
    q = tier == 'quick'
    work = vlib.scratch(pid)
    try:
        vlib.copy_spec(work)
        harness = vlib.build_harness()
        if pid == 'C10':
            shapes = [[2, 1], [1, 2, 1]] if q else [[2, 1], [1, 2, 1], [2, 2], [3, 1, 2]]
            scheds, states, trans = node_schedules(work, shapes, 2, [0])
        else:
            shapes = [[1, 1, 1]] if q else [[1, 1, 1], [2, 1, 1], [1, 1, 2, 1]]
            scheds, states, trans = node_schedules(work, shapes, 2, [2, 3])
        hist = sim_histories(work, seed, 60 if q else 400)
        if not hist:
            raise Inconclusive('no block histories generated')
        jobs = []
        per = 1 if q else 4
        for si, sc in enumerate(scheds):
            need = sum(sc['shape'])
            cands = [h for h in hist if len(h) >= need] or hist
            for r in range(per):
                txs = cands[(si * per + r + seed) % len(cands)]
                variants = [sc['schedule']]
                if sc['upgradeAt']:
                    # a restart at the height just below the upgrade may find the upgrade-info.json of the halted old binary
                    hcount, v2 = 0, list(sc['schedule'])
                    changed = False
                    for i, name in enumerate(sc['schedule']):
                        if name == 'Commit':
                            hcount += 1
                        if name == 'Restart' and hcount == sc['upgradeAt'] - 1:
                            v2[i] = 'RestartInfo'
                            changed = True
                    if changed:
                        variants.append(v2)
                for vi, sch in enumerate(variants):
                    # C19: the chain is in the state the previous release left it in (staking minimum commission raised by the v2.2.0 handler, older validators below it);
                    # a third of the chains started from a genesis file without the (empty) section of x/upgrade
                    jobs.append(dict(id='%s-%d-%d-%d' % (pid, si, r, vi), cfg=(dict(prev=True, **(dict(dropgen=['upgrade']) if (si + vi) % 3 == 1 else {})) if pid == 'C19' and (si + vi) % 3 != 0 else {}),
                                     blocks=shape_history(txs, sc['shape']), schedule=sch, upgradeAt=sc['upgradeAt']))
                    if pid == 'C19' and (si + r + vi) % 2 == 0:
                        # the same schedule over a state in which every custom store is populated (incl. a DID tombstone) before the upgrade block
                        jobs.append(dict(jobs[-1], id=jobs[-1]['id'] + '-pop', prefix=populated_prefix()))
        if pid == 'C10':
            # long histories around a rolled-back multi-message transaction; one crash anywhere
            pf = partial_failure_histories(work, seed, 80 if q else 600)[: (6 if q else 60)]
            shapes2 = sorted({(i, 1, len(txs) - i - 1) for txs, i in pf})
            if shapes2:
                scheds2, st2, tr2 = node_schedules(work, [list(x) for x in shapes2], 1, [0])
                states += st2
                trans += tr2
                for pi, (txs, i) in enumerate(pf):
                    shp = [i, 1, len(txs) - i - 1]
                    for si, sc in enumerate([x for x in scheds2 if x['shape'] == shp]):
                        jobs.append(dict(id='%s-pf%d-%d' % (pid, pi, si), cfg={}, blocks=shape_history(txs, shp), schedule=sc['schedule'], upgradeAt=0))
                shapes = shapes + [list(x) for x in shapes2]
        if pid == 'C10':
            # a long run of (mostly empty) blocks over a populated state, a deposit to the burn address at both ends, one crash anywhere: whatever a module
            # keeps in process memory across blocks (counters, "last done at height" marks, caches) is lost by the restarted node and kept by the twin
            guards = guard_txs()
            long_shape = [2] + [0] * (8 if q else 11) + [2 + len(guards), 0]
            scheds3, st3, tr3 = node_schedules(work, [long_shape], 1, [0])
            states += st3
            trans += tr3
            dep = lambda n: dict(msgs=[dict(type='bank.Send', to='burn', denom='umed', amt=n, **{'from': 'a1'})], signers=['a1'], fee=0, exec='none')
            # the late block also carries requests that stateful guards must refuse on the populated state (delete a denom that holds tokens, append by a
            # non-writer, re-create what exists, act on a token that was handed over): a guard that lives in process memory is gone after a restart
            # ... and, in the first block, a two-message transaction whose second message fails after the first has appended a record (everything is
            # rolled back); the late block appends to the same topic: what the rolled-back work left in process memory is gone after a restart
            rec = lambda w, v: dict(type='aol.AddRecord', owner='a1', topic='t1', writer=w, key='k', val=v, feePayer='none')
            rolled_back = dict(msgs=[rec('a2', 'rb'), rec('a1', 'never')], signers=['a2', 'a1'], fee=0, exec='none')
            good = dict(msgs=[rec('a2', 'late')], signers=['a2'], fee=0, exec='none')
            blocks = [[dep(7), rolled_back]] + [[] for _ in long_shape[1:-2]] + [[dep(3), good] + guards, []]
            for si, sc in enumerate(scheds3):
                jobs.append(dict(id='%s-long-%d' % (pid, si), cfg={}, prefix=populated_prefix(), blocks=blocks, schedule=sc['schedule'], upgradeAt=0))
            shapes = shapes + [long_shape]
        log('%s: %d schedules from TLC, %d jobs' % (pid, len(scheds), len(jobs)))
        traces = run_harness_jobs(work, harness, 'node', jobs)
        mc_wrapper(work, 'MCNodeTrace', 'NodeTrace', dict(ShapesC='{}', UpC='{}'))
        write_raw_cfg(os.path.join(work, 'nodetrace.cfg'), ['SPECIFICATION TraceSpec', 'CONSTANTS', '  BlockShapes <- ShapesC', '  MaxCrashes = 1000', '  UpgradeAts <- UpC',
                                                            'POSTCONDITION TraceAccepted', 'CHECK_DEADLOCK FALSE'])
        viol, drift, lines = validate_with(work, 'MCNodeTrace.tla', 'nodetrace.cfg', traces)
        # C17 observations (panics outside restarts) are reported by their own check; restart failures are C10/C19 already
        extra = {}
        if pid == 'C19':
            sviol, sinfo = upgrades_static(work, harness)
            viol += sviol
            extra = dict(static=sinfo)
        jobs_by_id = {j['id']: j for j in jobs}
        distinct = len({json.dumps([j['schedule'], j['upgradeAt']]) for j in jobs})
        cov = dict(states=states, transitions=trans, traces_validated_against_impl=len(jobs), trace_events_validated=lines,
                   samples=[dict(shape=[len(b) for b in jobs[0]['blocks']], schedule=jobs[0]['schedule'], upgradeAt=jobs[0]['upgradeAt'])] if jobs else [],
                   evaluations=len(jobs), distinct_nontrivial=distinct,
                   rule='schedules are ALL complete runs of Node.tla for the block shapes %s with at most 2 crashes (enumerated by TLC); distinct = distinct (schedule, upgrade height) pairs executed; '
                        'each is non-trivial: it contains at least the full ABCI cycle of every block and is compared event by event with a never-stopped twin' % shapes,
                   exhaustive=True, shapes=shapes, **extra)
        return conclude(pid, tier, seed, t0, viol, drift, cov,
                        ['crash = the application object is dropped without Commit and re-created on the same database (MemDB); torn writes inside Commit are out of scope',
                         'only the pinned binary exists: the old binary halting at the upgrade height is emulated by writing upgrade-info.json' if pid == 'C19' else 'the twin runs in the same process',
                         'block histories are TLC-simulated Panacea behaviours (mixed custom modules)'], jobs_by_id,
                        sig_of=lambda v: 'schedule')
    finally:
        shutil.rmtree(work, ignore_errors=True)


# ---------------------------------------------------------------------------------------------
# C09 replicas

def replica_schedules(work, shapes, noise_txs, max_noise):
    mc_wrapper(work, 'MCReplicas', 'Replicas', dict(ShapesC='{' + ', '.join(tla_seq(s) for s in shapes) + '}'))
    write_raw_cfg(os.path.join(work, 'replicas.cfg'), [
        'SPECIFICATION Spec', 'CONSTANTS', '  BlockShapes <- ShapesC', '  NoiseTxs = %d' % noise_txs, '  MaxNoise = %d' % max_noise,
        'INVARIANTS Agreement ScheduleDump', 'CHECK_DEADLOCK FALSE'])
    rc, out, wall = vlib.run_tlc(work, 'MCReplicas.tla', 'replicas.cfg', workers=vlib.NCPU, heap='12g', timeout=1500)
    err = vlib.tlc_failed(out)
    if err:
        raise Inconclusive('Replicas.tla model checking reported: %s\n%s' % (err, out[-2500:]))
    gen, dist, depth = vlib.parse_mc_summary(out)
    scheds = [dict(shape=v[1], schedule=v[2]) for v in printed_values(out, 'SCHEDULE')]
    return scheds, dist, gen


def merge_txs(a, b):
    if a.get('exec', 'none') != 'none' or b.get('exec', 'none') != 'none':
        return None
    return dict(msgs=a['msgs'] + b['msgs'], signers=sorted(set(a['signers']) | set(b['signers'])), fee=0, exec='none')


def drop_one_histories(work, seed, n, total):
    """(history, noise) pairs: a simulated behaviour with one ACCEPTED transaction d_i left out of the blocks; the noise transactions are
    d_i itself and d_i merged with each of the next two transactions (multi-message transactions that are only ever checked/simulated)."""
    pre = configs.preset('C15', 'quick')
    simc = dict(pre['sims'][0]['constants'], FailKeep=6)
    behs = vlib.simulate(work, simc, n, 40, seed + 5)
    out = []
    for bi, steps in enumerate(behs):
        dl = [a for a in steps if a.get('name') == 'Deliver']
        oks = [i for i, a in enumerate(dl) if a.get('result') == 'ok' and i + 2 < len(dl)]
        if not oks:
            continue
        i = oks[(bi + seed) % len(oks)]
        txs = [a['tx'] for a in dl]
        start = max(0, i - (total - 3))
        hist = txs[start:i] + txs[i + 1:]
        hist = hist[:total]
        if len(hist) < total:
            continue
        noise = [txs[i]] + [m for m in (merge_txs(txs[i], txs[i + 1]), merge_txs(txs[i], txs[i + 2])) if m]
        while len(noise) < 3:
            noise.append(txs[i])
        out.append((hist, noise[:3]))
    return out


def replicas_check(tier, seed):
    pid = 'C09'
    t0 = time.time()
    q = tier == 'quick'
    work = vlib.scratch(pid)
    try:
        vlib.copy_spec(work)
        harness = vlib.build_harness()
        shapes = [[2, 2]] if q else [[2, 2], [1, 2, 1], [3, 2]]
        scheds, states, trans = replica_schedules(work, shapes, 3, 2)
        byshape = {}
        for sc in scheds:
            byshape.setdefault(tuple(sc['shape']), []).append(sc['schedule'])
        jobs = []
        limit = 160 if q else 4000
        for shp, lst in byshape.items():
            hists = drop_one_histories(work, seed, 80 if q else 500, sum(shp))
            if not hists:
                raise Inconclusive('no histories for shape %s' % (shp,))
            lst = sorted(lst, key=lambda s: json.dumps(s))
            # deterministic spread over the enumerated schedules: every schedule is used as A or as B when the limit allows it
            stride = max(1, len(lst) // max(1, limit // len(byshape)))
            picks = lst[(seed % stride)::stride]
            for pi, sa in enumerate(picks):
                sb = lst[(pi * 7 + seed + len(lst) // 2) % len(lst)]
                hist, noise = hists[(pi + seed) % len(hists)]
                blocks = shape_history(hist, list(shp))
                if pi % 2 == 1 and blocks and blocks[-1]:
                    # every second job: the last transaction of the history is a deposit to the burn address (end-of-block processing that depends on
                    # anything but the chain state - a timer, a counter kept in memory - shows between a restarted and a never-stopped replica)
                    blocks[-1] = blocks[-1][:-1] + [dict(msgs=[dict(type='bank.Send', to='burn', denom='umed', amt=7, **{'from': 'a1'})], signers=['a1'], fee=0, exec='none')]
                jobs.append(dict(id='C09-%s-%d' % ('x'.join(map(str, shp)), pi), cfg={}, blocks=blocks, noise=noise, schedA=sa, schedB=sb))
        # genesis files are input: replicas started from every genesis value of GenesisMC.tla (ordinary entries next to legal oddities such as zero
        # timestamps, tombstones, legacy entries, inconsistent counters), a short history on top
        gvals = genesis_values(work)
        base = [j for j in jobs if sum(len(b) for b in j['blocks']) >= 2][:1] or jobs[:1]
        for gi, g in enumerate(gvals if not q else gvals[(seed % 2)::2]):
            jobs.append(dict(base[0], id='C09-genesis-%d' % gi, cfg=dict(absgen=g)))
        log('C09: %d schedules from TLC, %d jobs (each: replica A in-process, replica B in a GOMAXPROCS=1 subprocess)' % (len(scheds), len(jobs)))
        traces = run_harness_jobs(work, harness, 'replicas', jobs)
        mc_wrapper(work, 'MCReplicasTrace', 'ReplicasTrace', dict(ShapesC='{}'))
        write_raw_cfg(os.path.join(work, 'reptrace.cfg'), ['SPECIFICATION TraceSpec', 'CONSTANTS', '  BlockShapes <- ShapesC', '  NoiseTxs = 3', '  MaxNoise = 1000',
                                                           'POSTCONDITION TraceAccepted', 'CHECK_DEADLOCK FALSE'])
        viol, drift, lines = validate_with(work, 'MCReplicasTrace.tla', 'reptrace.cfg', traces)
        cov = dict(states=states, transitions=trans, traces_validated_against_impl=len(jobs), trace_events_validated=lines,
                   samples=[dict(schedA=jobs[0]['schedA'], schedB=jobs[0]['schedB'], noise=jobs[0]['noise'][:1])] if jobs else [],
                   evaluations=len(jobs), distinct_nontrivial=len({json.dumps([j['schedA'], j['schedB']]) for j in jobs}),
                   rule='noise schedules are complete runs of Replicas.tla (<=2 noise actions out of Check/Recheck/Simulate of 3 noise transactions, Query, clean Restart) enumerated by TLC for shapes %s; '
                        'a job pairs two different schedules; non-trivial: at least one replica has noise and the two schedules differ' % shapes,
                   exhaustive=False, schedules_enumerated=len(scheds), shapes=shapes, genesis_values_enumerated=len(gvals))
        return conclude(pid, tier, seed, t0, viol, drift, cov,
                        ['hardware parallelism is varied only through GOMAXPROCS (16 vs 1) and process identity/start time',
                         'noise transactions are accepted transactions left out of the blocks, alone and merged with their successors'],
                        {j['id']: j for j in jobs})
    finally:
        shutil.rmtree(work, ignore_errors=True)


# ---------------------------------------------------------------------------------------------
# C20 concurrency

def keystore_locks(work, harness, procs=3):
    """measures the lock programs on the real key store, model-checks KeyStoreLocks.tla on them, replays any deadlock on the real code"""
    p = subprocess.run([harness, 'locks-measure'], capture_output=True, text=True, timeout=300)
    if p.returncode != 0:
        raise Inconclusive('locks-measure failed: ' + p.stderr[-2000:])
    programs = json.loads(p.stdout.strip().splitlines()[-1])['programs']
    if not programs or any(len(v) == 0 for v in programs.values()):
        raise Inconclusive('key-store hooks did not fire for every operation (build tag verif missing?): %s' % programs)
    pdef = '[' + ', '.join('%s |-> <<%s>>' % (k, ', '.join('"%s"' % x for x in v)) for k, v in sorted(programs.items())) + ']'
    mc_wrapper(work, 'MCLocks', 'KeyStoreLocks', dict(ProgramsC=pdef, ProcsC='1..%d' % procs))
    write_raw_cfg(os.path.join(work, 'locks.cfg'), ['SPECIFICATION Spec', 'VIEW StateView', 'CONSTANTS', '  Programs <- ProgramsC', '  Procs <- ProcsC',
                                                    'INVARIANTS MutexOk DeadlockDump', 'CHECK_DEADLOCK FALSE'])
    rc, out, wall = vlib.run_tlc(work, 'MCLocks.tla', 'locks.cfg', workers=vlib.NCPU, heap='8g', timeout=1200)
    err = vlib.tlc_failed(out)
    if err:
        raise Inconclusive('KeyStoreLocks.tla: %s\n%s' % (err, out[-2000:]))
    gen, dist, depth = vlib.parse_mc_summary(out)
    dumps = printed_values(out, 'DEADLOCK')
    confirmed, unconfirmed = [], []
    seen = set()
    for d in dumps:
        prog = d[1]
        key = json.dumps(prog, sort_keys=True)
        if key in seen:
            continue
        seen.add(key)
        if len(seen) > 4:
            break
        # prog is a TLA function 1..n -> name: printed as a sequence
        if isinstance(prog, list):
            prog = {str(i + 1): n for i, n in enumerate(prog)}
        sched = dict(prog=prog, trace=d[2])
        sf = os.path.join(work, 'lock-sched-%d.json' % len(seen))
        json.dump(sched, open(sf, 'w'))
        r = subprocess.run([harness, 'locks-replay', sf], capture_output=True, text=True, timeout=120)
        try:
            res = json.loads(r.stdout.strip().splitlines()[-1])
        except Exception:
            raise Inconclusive('locks-replay gave no verdict: ' + r.stdout[-500:] + r.stderr[-1500:])
        (confirmed if res.get('deadlock') else unconfirmed).append(dict(schedule=sched, result=res))
    return dict(programs=programs, states=dist, transitions=gen, model_deadlocks=len(dumps), confirmed=confirmed, unconfirmed=unconfirmed)


def snapshot_model(work):
    mc_wrapper(work, 'MCSnapshot', 'Snapshot', dict(ReadersC='{1, 2}'))
    write_raw_cfg(os.path.join(work, 'snap.cfg'), ['SPECIFICATION Spec', 'CONSTANTS', '  Readers <- ReadersC', '  MaxHeight = 3', 'INVARIANTS IntervalRule TypeOk', 'CHECK_DEADLOCK FALSE'])
    rc, out, wall = vlib.run_tlc(work, 'MCSnapshot.tla', 'snap.cfg', workers=vlib.NCPU, heap='8g', timeout=1200)
    err = vlib.tlc_failed(out)
    if err:
        raise Inconclusive('Snapshot.tla: %s\n%s' % (err, out[-2000:]))
    gen, dist, depth = vlib.parse_mc_summary(out)
    return dist, gen


def conc_jobs(work, seed, n, nblocks=6, per=2, readers=8, sweep=False):
    hists = [h for h in sim_histories(work, seed, max(40, n * 4), depth=60) if len(h) >= nblocks * per]
    if not hists:
        hists = sim_histories(work, seed, 80, depth=60)
    jobs = []
    for i in range(n):
        txs = hists[(i + seed) % len(hists)]
        shape = [per] * min(nblocks, max(1, len(txs) // per))
        jobs.append(dict(id='C20-c%d' % i, cfg={}, blocks=shape_history(txs, shape), noise=txs[:3], readers=readers, sweep=sweep))
        # the same run on a node with IAVL fast-node storage disabled (separates the recorded IAVL finding from anything else)
        jobs.append(dict(id='C20-c%d-nofast' % i, cfg=dict(nofast=True), blocks=shape_history(txs, shape), noise=txs[:3], readers=readers, sweep=sweep))
    return jobs


def concurrency_check(tier, seed):
    pid = 'C20'
    t0 = time.time()
    q = tier == 'quick'
    work = vlib.scratch(pid)
    try:
        vlib.copy_spec(work)
        harness = vlib.build_harness()
        viol = []
        # (2) key-store deadlock freedom
        ks = keystore_locks(work, harness, 3)
        for ci, c in enumerate(ks['confirmed']):
            viol.append(dict(kind='VIOLATION', id='C20', run='keystore-deadlock-%d' % ci, step=0, line=0, file=''))
        drift = [dict(id='keystore-model-deadlock-not-reproduced', run=json.dumps(u['schedule']['prog']), step=0) for u in ks['unconfirmed']]
        # (1) snapshot reads
        sstates, strans = snapshot_model(work)
        jobs = conc_jobs(work, seed, 6 if q else 60)
        traces = run_harness_jobs(work, harness, 'concurrent', jobs, nproc=2 if q else 4)
        write_raw_cfg(os.path.join(work, 'snaptrace.cfg'), ['SPECIFICATION TraceSpec', 'POSTCONDITION TraceAccepted', 'CHECK_DEADLOCK FALSE'])
        v2, d2, lines = validate_with(work, 'SnapshotTrace.tla', 'snaptrace.cfg', traces)
        viol += v2
        drift += d2
        nq = 0
        for tf in traces:
            for ln in open(tf):
                if '"QEnd"' in ln:
                    nq += 1
        # (3) data races: auxiliary detector riding on the same schedules (quick: one short run + the stateless sweep; thorough: three full runs)
        race = race_run(work, seed, light=q)
        if True:
            for ri, r in enumerate(race['reports']):
                viol.append(dict(kind='VIOLATION', id='C20', run='data-race-%d' % ri, step=0, line=0, file=''))
        jobs_by_id = {j['id']: j for j in jobs}
        for ci, c in enumerate(ks['confirmed']):
            jobs_by_id['keystore-deadlock-%d' % ci] = c
        if race:
            for ri, r in enumerate(race['reports']):
                jobs_by_id['data-race-%d' % ri] = dict(race_report=r)
        cov = dict(states=ks['states'] + sstates, transitions=ks['transitions'] + strans, traces_validated_against_impl=len(jobs) + len(ks['confirmed']) + len(ks['unconfirmed']),
                   trace_events_validated=lines, queries_validated=nq,
                   samples=[dict(keystore_lock_programs_measured=ks['programs']), dict(concurrent_job=dict(blocks=[len(b) for b in jobs[0]['blocks']], readers=jobs[0]['readers']))],
                   evaluations=nq, distinct_nontrivial=nq,
                   rule='key store: the lock program of each of the 6 public operation paths is measured on the real code and all interleavings of 3 concurrent calls are model-checked; '
                        'snapshot: Snapshot.tla (2 readers, 3 heights) is model-checked and every finished query of the concurrent runs (8 readers, gRPC query path, current and historical heights, '
                        'mempool noise) is checked against its interval rule; non-trivial = queries that finished while the run was going on',
                   exhaustive=True, keystore_model_deadlocks=ks['model_deadlocks'], keystore_deadlocks_confirmed=len(ks['confirmed']), race_detector=race)
        return conclude(pid, tier, seed, t0, viol, drift, cov,
                        ['Go sync.RWMutex semantics as modelled in KeyStoreLocks.tla (writer preference)',
                         'consensus and mempool ABCI calls are serialised (as CometBFT v0.37 local client does); queries use the concurrent gRPC path (CreateQueryContext)',
                         'data races: auxiliary `go build -race` run (one short run in the quick tier); only reports in which one of the two racing accesses is made by github.com/medibloc/panacea-core code count'],
                        jobs_by_id, sig_of=lambda v: v['run'].rsplit('-', 1)[0])
    finally:
        shutil.rmtree(work, ignore_errors=True)


def race_is_ours(blk):
    """A race report counts against panacea-core when at least one of the two racing ACCESSES is made by panacea-core code: the first frame of an
    access stack that is not Go standard library belongs to github.com/medibloc/panacea-core.  A race between two accesses inside a dependency
    (e.g. iavl's nodeDB.latestVersion, read by every iterator and written by SaveVersion) is the dependency's, whatever called it further up."""
    stacks = []
    for sec in blk.split('\n\n'):
        lines = [l for l in sec.split('\n') if l.strip()]
        if not lines or not re.match(r'\s*(Previous )?(atomic )?(read|write) at ', lines[0], re.I):
            continue
        funcs = [l.strip() for l in lines[1:] if l.startswith('  ') and not l.startswith('      ')]
        stacks.append(funcs)
    for funcs in stacks[:2]:
        for f in funcs:
            first = f.split('/')[0]
            if '.' not in first.split('(')[0].split('.')[0] and '/' not in f.split('(')[0] and not f.startswith('main.'):
                continue          # standard library (runtime., sync., bytes., ...)
            if '/' in f and '.' not in f.split('/')[0]:
                continue          # standard library with a path (encoding/json., sync/atomic.)
            if 'medibloc/panacea-core' in f:
                return True
            break
    return False


def sweep_txs():
    """message shapes for the stateless sweep that block histories rarely contain: documents with every key-type class (incl. types the module has no
    constant for), rich documents, dedicated methods, plus the populating block"""
    def doc(d, ktype, ex=''):
        return dict(id=d, vms=[dict(n='v1', key='k1', type=ktype)], auth=[dict(n='v1', ded=False, key='', type='')], asrt=[], ex=ex)
    out = list(populated_prefix())
    for d in ('d1', 'd2', 'dc'):
        for kt, ex in (('es19', ''), ('es18', ''), ('ed25', ''), ('x20', ''), ('es19', 'rich'), ('es19', 'rich2'), ('x20', 'rich')):
            dc = doc(d, kt, ex)
            for typ in ('did.Create', 'did.Update'):
                out.append(dict(msgs=[dict(type=typ, did=d, doc=dc, vm='v1', vmDid=d, proof=dict(key='k1', data=dc, seq=0), **{'from': 'a1'})], signers=['a1'], fee=0, exec='none'))
    return out


def race_run(work, seed, light=False):
    harness = vlib.build_harness(race=True)
    # same history request as the main stage (cached): no second TLC simulation
    if light:
        jobs = [dict(j, readers=4) for j in conc_jobs(work, seed, 6, nblocks=3, sweep=True)[:1]]
    else:
        jobs = conc_jobs(work, seed, 60, sweep=True)[4:10]
    for j in jobs:
        j['sweepTxs'] = sweep_txs()
    jf = os.path.join(work, 'race-jobs.ndjson')
    with open(jf, 'w') as f:
        for j in jobs:
            f.write(json.dumps(j) + '\n')
    p = subprocess.run([harness, 'concurrent', jf, os.path.join(work, 'race-trace.ndjson')], capture_output=True, text=True, timeout=3000,
                       env=dict(os.environ, GORACE='halt_on_error=0'))
    ksp_stderr = subprocess.run([harness, 'locks-stress'], capture_output=True, text=True, timeout=600, env=dict(os.environ, GORACE='halt_on_error=0')).stderr
    reports, dependency = [], []
    # an unsynchronised Go map dies with a fatal error instead of a report: custom-module code on the faulting goroutine's stack makes it ours
    for err_out in (p.stderr, ksp_stderr):
        if 'fatal error: concurrent map' in err_out:
            blk = err_out[err_out.index('fatal error: concurrent map'):][:3000]
            first = blk.split('\n\n')[1] if '\n\n' in blk else blk
            (reports if 'medibloc/panacea-core' in first else dependency).append(blk)
    for blk in (p.stderr.split('WARNING: DATA RACE')[1:] + ksp_stderr.split('WARNING: DATA RACE')[1:]):
        blk = blk.split('==================')[0]
        (reports if race_is_ours(blk) else dependency).append(blk[:3000])
    return dict(reports=reports[:5], total_race_warnings=p.stderr.count('WARNING: DATA RACE') + ksp_stderr.count('WARNING: DATA RACE'), exit=p.returncode,
                races_inside_dependencies=len(dependency), dependency_race_sample=(dependency[0][:600] if dependency else None))


# ---------------------------------------------------------------------------------------------
# C18 composite keys

def compkey_check(tier, seed):
    import itertools
    pid = 'C18'
    t0 = time.time()
    q = tier == 'quick'
    work = vlib.scratch(pid)
    try:
        vlib.copy_spec(work)
        harness = vlib.build_harness()
        byts = [0, 1, 2] if q else [0, 1, 2, 7]
        maxcomps = 2 if q else 3
        if not q:
            byts = [0, 1, 2]      # 3 byte values x 3 components: 2380 tuples, 5.6M ordered pairs
        mc_wrapper(work, 'MCCompKey', 'CompKey', dict(BytesC='{' + ', '.join(map(str, byts)) + '}'))
        write_raw_cfg(os.path.join(work, 'ck.cfg'), ['SPECIFICATION Spec', 'CONSTANTS', '  MaxLen = 2', '  Bytes <- BytesC', '  MaxComps = %d' % maxcomps, '  MaxStr = %d' % (5 if q else 6),
                                                 'INVARIANTS RoundTrip Injective PrefixExact RejectsTooLong DecodeTotal StringForm CaseDump', 'CHECK_DEADLOCK FALSE'])
        rc, out, wall = vlib.run_tlc(work, 'MCCompKey.tla', 'ck.cfg', workers=vlib.NCPU, heap='16g', timeout=2400)
        err = vlib.tlc_failed(out)
        if err:
            raise Inconclusive('CompKey.tla model checking reported: %s\n%s' % (err, out[-2500:]))
        gen, dist, depth = vlib.parse_mc_summary(out)
        cases = []
        for v in printed_values(out, 'CASE'):
            cases.append(dict(k='enc', t=v[1]))
        nmodel = len(cases)
        # the decoder on every byte string of the model's domain
        for n in range(0, (5 if q else 6) + 1):
            for s in itertools.product(byts, repeat=n):
                cases.append(dict(k='dec', s=list(s)))
        # real-size boundaries that the scaling hides
        lens = [0, 1, 2, 7, 8, 20, 127, 128, 254, 255, 256, 257, 300, 1000]
        for L in lens:
            for fill in (0, L % 256, 255, 1):
                cases.append(dict(k='enc', t=[[fill] * L]))
                cases.append(dict(k='enc', t=[[1], [fill] * L]))
                cases.append(dict(k='enc', t=[[fill] * L, [L % 256] * (L % 256)]))
                cases.append(dict(k='enc', t=[[2, fill], [fill] * L, []]))
        for a in ([], [0], [1], [2], [1, 1], [2, 0, 0], [255]):
            for b in ([], [0], [1, 0], [0, 0, 0], [3, 1, 2]):
                cases.append(dict(k='enc', t=[a, b]))
                cases.append(dict(k='enc', t=[a, b, a, b]))
        for n in range(0, 5):
            for s in itertools.product([0, 1, 2, 255], repeat=n):
                cases.append(dict(k='dec', s=list(s)))
        for L in (254, 255):
            cases.append(dict(k='dec', s=[255] + [9] * L))
            cases.append(dict(k='dec', s=[L] + [9] * L + [1]))
            cases.append(dict(k='dec', s=[L] + [9] * L + [0]))
        # typed keys: structurally valid strings whose components are legal or illegal for the type

        def enc(comps):
            out = []
            for c in comps:
                out += [len(c)] + c
            return out
        addrs = [[], [5], [5] * 20, [5] * 32, [5] * 255]
        names = [[], [97], [97] * 70, [97] * 255]
        offs = [[], [0], [0] * 7, [0] * 8, [0, 0, 0, 0, 0, 0, 1, 0], [0] * 9, [1] * 16]
        for ty in ('owner', 'topic', 'writer', 'record'):
            for a in addrs:
                cases.append(dict(k='typed', type=ty, s=enc([a])))
                for nm in names:
                    cases.append(dict(k='typed', type=ty, s=enc([a, nm])))
                    for third in (offs if ty == 'record' else addrs + offs[3:4]):
                        cases.append(dict(k='typed', type=ty, s=enc([a, nm, third])))
                    cases.append(dict(k='typed', type=ty, s=enc([a, nm, [0] * 8, [1]])))
            cases.append(dict(k='typed', type=ty, s=[]))
            cases.append(dict(k='typed', type=ty, s=[3, 1]))
        # string form of everything the validators admit
        alpha = [97, 65, 48, 46, 95, 45, 47, 32, 10, 195, 169]
        for n in (1, 2, 3):
            for s in itertools.product(alpha, repeat=n):
                if n < 3 or 47 in s or s[0] == 97:
                    cases.append(dict(k='str', name=list(s)))
        # the offset component of a record key: every uint64 the chain can hand out has a string form that reads back as the same number
        for off in list(range(0, 34)) + [63, 64, 65, 77, 99, 100, 101, 255, 256, 511, 512, 777, 1000, 4095, 4096, 65535, 65536, 10 ** 6, 2 ** 31, 2 ** 32, 2 ** 53, 2 ** 63 - 1, 2 ** 63, 2 ** 64 - 2]:
            cases.append(dict(k='str', name=[97], off=str(off)))
        cases.append(dict(k='str', name=[97] * 70))
        cases.append(dict(k='str', name=[97] * 69 + [47]))
        cf_in = os.path.join(work, 'ck-cases.ndjson')
        with open(cf_in, 'w') as f:
            for c in cases:
                f.write(json.dumps(c) + '\n')
        obs = os.path.join(work, 'ck-obs.ndjson')
        p = subprocess.run([harness, 'compkey', cf_in, obs], capture_output=True, text=True, timeout=1200)
        if p.returncode != 0:
            raise Inconclusive('harness compkey failed: ' + p.stderr[-2000:])
        # split for parallel validation
        lines = open(obs).read().splitlines()
        parts = []
        for ci, ch in enumerate(vlib.chunks(lines, vlib.NCPU)):
            pf = os.path.join(work, 'ck-obs-%d.ndjson' % ci)
            open(pf, 'w').write('\n'.join(ch) + '\n')
            parts.append(pf)
        mc_wrapper(work, 'MCCompKeyTrace', 'CompKeyTrace', dict(BytesC='{}'))
        write_raw_cfg(os.path.join(work, 'cktrace.cfg'), ['SPECIFICATION TraceSpec', 'CONSTANTS', '  MaxLen = 255', '  Bytes <- BytesC', '  MaxComps = 0', '  MaxStr = 0',
                                                      'POSTCONDITION TraceAccepted', 'CHECK_DEADLOCK FALSE'])
        viol, drift, nl = validate_with(work, 'MCCompKeyTrace.tla', 'cktrace.cfg', parts, heap='4g')
        for v in viol:
            # map the line of the chunk back to the case
            idx = parts.index(v['file']) * len(vlib.chunks(lines, vlib.NCPU)[0]) + v['line'] - 1
            v['case'] = cases[idx] if idx < len(cases) else None
            v['run'] = v['run'] + ':' + (json.dumps(v['case'])[:80] if v['case'] else '?')
        cov = dict(states=dist, transitions=gen, traces_validated_against_impl=len(cases), samples=cases[:2] + cases[nmodel + 400:nmodel + 402] + cases[-3:-1],
                   evaluations=len(cases), distinct_nontrivial=len({json.dumps(c) for c in cases}),
                   rule='exhaustive: all tuples of <=%d components over bytes %s with length <=2 (every ordered pair for injectivity and prefix-exactness), all byte strings up to length %d for the decoder; '
                        'binding: every tuple of that domain, every such byte string, real-size boundaries (lengths 0..1000 around 255/256, content bytes equal to length bytes), typed-key strings with legal and '
                        'illegal components, and validator-admitted topic names through the string form; every case is distinct' % (maxcomps, byts, 5 if q else 6),
                   exhaustive=True, model_domain_tuples=nmodel)
        return conclude(pid, tier, seed, t0, viol, drift, cov,
                        ['scaled bound MaxLen=2 stands for 255 in the exhaustive part; the real bound is exercised by the boundary cases only',
                         'the decoder is exercised through a raw CompositeKey (plain byte-slice components) and through the four typed keys of x/aol'],
                        {}, sig_of=lambda v: v['run'].split(':')[0])
    finally:
        shutil.rmtree(work, ignore_errors=True)


# ---------------------------------------------------------------------------------------------
# C14 sign bytes

def signbytes_check(tier, seed):
    pid = 'C14'
    t0 = time.time()
    q = tier == 'quick'
    work = vlib.scratch(pid)
    try:
        vlib.copy_spec(work)
        harness = vlib.build_harness()
        consts = configs.mk(Accts=S(['a1', 'a2']) if q else S(['a1', 'a2', 'a3']), Topics=S(['t1', 't2']) if q else S(['t1', 't2', 'tc']), Descs=S(['', 'x', ' x', 'L300']), Mons=S(['', 'm', 'm ']), RecKeys=S(['', 'k1']), RecVals=S(['', 'v1', 'v2']) if q else S(['', 'v1', 'v2', 'v1\\t', 'L4000']),
                            FeePayers=S(['none', 'a1', 'a2']), Dids=S(['d1', 'dc']), DocNames=S(['A1', 'A2', 'R1', 'R2']) if q else S(['A1', 'A2', 'B12', 'C1', 'D2', 'E1', 'U1', 'R1', 'R2', 'F12']), Keys=S(['k1']) if q else S(['k1', 'k2']),
                            VmNames=S(['v1']), Seqs=S([0]) if q else S([0, 1]), DenomIds=S(['n1', 'n2']), TokenIds=S(['i1', 'i2']), DNames=S(['x', 'y']),
                            Kinds=configs.AOL_KINDS | configs.DID_KINDS | configs.PN_KINDS)
        cfg = os.path.join(work, 'sb.cfg')
        vlib.write_cfg(cfg, 'SBSpec', consts, (), ['DirectInjective', 'AminoInjectiveUpToKnown', 'CaseDump'])
        rc, out, wall = vlib.run_tlc(work, 'SignBytes.tla', 'sb.cfg', workers=vlib.NCPU, heap='16g', timeout=2400)
        err = vlib.tlc_failed(out)
        if err:
            raise Inconclusive('SignBytes.tla model checking reported: %s\n%s' % (err, out[-2500:]))
        gen, dist, depth = vlib.parse_mc_summary(out)
        cases = []
        for v in printed_values(out, 'CASE'):
            cases.append(dict(id='m%d' % len(cases), m=v[1], akey=v[2]))
        # non-vacuity: the recorded collision classes exist in the specification (the witness invariant must be violated)
        vlib.write_cfg(cfg, 'SBSpec', consts, (), ['W_NoKnownCollision'])
        rc2, out2, _ = vlib.run_tlc(work, 'SignBytes.tla', 'sb.cfg', workers=4, heap='4g', timeout=1200)
        model_has_collisions = 'is violated' in out2
        # two-message transactions: for every message type, neighbouring alphabet messages A, B (they differ in at least one field)
        bytype = {}
        for c in cases:
            bytype.setdefault(c['m']['type'], []).append(c)
        pairs = []
        for ty, cs in sorted(bytype.items()):
            step = max(1, len(cs) // (12 if q else 60))
            for k in range(0, len(cs) - 1, step):
                pairs.append(dict(id='p%d' % len(pairs), pair=[cs[k]['m'], cs[k + 1]['m']]))
                if k + 7 < len(cs):
                    pairs.append(dict(id='p%d' % len(pairs), pair=[cs[k]['m'], cs[k + 7]['m']]))
            # ... and pairs that differ in exactly one field by values of EQUAL length (same-size encodings: whatever is keyed or pooled by size confuses them)
            found = 0
            for ai, a in enumerate(cs):
                for b in cs[ai + 1:]:
                    diff = [f for f in a['m'] if a['m'][f] != b['m'].get(f)]
                    if len(diff) == 1 and isinstance(a['m'][diff[0]], str) and len(a['m'][diff[0]]) == len(b['m'][diff[0]]) > 0:
                        pairs.append(dict(id='p%d' % len(pairs), pair=[a['m'], b['m']]))
                        found += 1
                        break
                if found >= (6 if q else 40):
                    break
        cf_in = os.path.join(work, 'sb-cases.ndjson')
        with open(cf_in, 'w') as f:
            for c in cases + pairs:
                f.write(json.dumps(c) + '\n')
        obs = []
        for k in (0, 1):
            of = os.path.join(work, 'sb-obs-%d.ndjson' % k)
            p = subprocess.run([harness, 'signbytes', cf_in, of], capture_output=True, text=True, timeout=1200, env=dict(os.environ, GOMAXPROCS='1' if k else '16'))
            if p.returncode != 0:
                raise Inconclusive('harness signbytes failed: ' + p.stderr[-2000:])
            obs.append(open(of).read())
        allrecs = [json.loads(l) for l in obs[0].splitlines()]
        recs = [r for r in allrecs if r['ev'] == 'case']
        pair_recs = [r for r in allrecs if r['ev'] == 'pair']
        tf = os.path.join(work, 'sb-trace.ndjson')
        with open(tf, 'w') as f:
            f.write(json.dumps(dict(ev='xproc', equal=obs[0] == obs[1], id='xproc', i=0)) + '\n')
            for r in pair_recs:
                f.write(json.dumps(r) + '\n')
            for by in ('direct', 'aux', 'amino', 'akey'):
                f.write(json.dumps(dict(ev='section', by=by)) + '\n')
                for r in sorted(recs, key=lambda r: (r[by], r['i'])):
                    f.write(json.dumps(r) + '\n')
        write_raw_cfg(os.path.join(work, 'sbtrace.cfg'), ['SPECIFICATION TraceSpec', 'POSTCONDITION TraceAccepted', 'CHECK_DEADLOCK FALSE'])
        viol, drift, nl = validate_with(work, 'SignBytesTrace.tla', 'sbtrace.cfg', [tf], heap='4g')
        byid = {c['id']: c for c in cases}
        groups = {}
        for r in recs:
            if r['amino'] != 'unavailable':
                groups.setdefault(r['amino'], []).append(r)
        coll = [g for g in groups.values() if len(g) > 1]
        cov = dict(states=dist, transitions=gen, traces_validated_against_impl=len(cases), samples=[cases[0], cases[len(cases) // 2]], evaluations=len(cases) * 3,
                   distinct_nontrivial=len(cases),
                   rule='every message of the alphabet (14 types, every field from a small set that includes the empty value; %d messages) has its REAL sign bytes computed in DIRECT, DIRECT_AUX and '
                        'LEGACY_AMINO_JSON (three times in-process from the signer\'s value, once as the node\'s verifier computes them - encoded, decoded, ValidateBasic run - and once in a GOMAXPROCS=1 process; descriptions/monikers with surrounding white space included); all ordered pairs are compared through sorting; the specification side checks all ordered pairs' % len(cases),
                   exhaustive=True, real_amino_collision_groups=len(coll), model_predicts_known_collisions=model_has_collisions,
                   example_collision=[[r['type'], byid[r['id']]['m']] for r in coll[0][:3]] if coll else None)
        return conclude(pid, tier, seed, t0, viol, drift, cov,
                        ['field values come from a finite alphabet (including empty optional fields), not all strings', 'pnft messages are not LegacyMsg: amino-JSON mode is unavailable for them (vacuous)'],
                        {r['id']: byid[r['id']] for r in recs}, sig_of=lambda v: 'collision')
    finally:
        shutil.rmtree(work, ignore_errors=True)


# ---------------------------------------------------------------------------------------------
# C16 stateless acceptance / C17 totality

def shapes_check(pid, tier, seed):
    t0 = time.time()
    q = tier == 'quick'
    work = vlib.scratch(pid)
    try:
        vlib.copy_spec(work)
        harness = vlib.build_harness()
        write_raw_cfg(os.path.join(work, 'sh.cfg'), ['SPECIFICATION Spec', 'CONSTANTS', '  Depth = %d' % (2 if q else 3), 'INVARIANTS BaselineAccepted VerdictTotal Monotone CaseDump', 'CHECK_DEADLOCK FALSE'])
        rc, out, wall = vlib.run_tlc(work, 'Shapes.tla', 'sh.cfg', workers=vlib.NCPU, heap='16g', timeout=2400)
        err = vlib.tlc_failed(out)
        if err:
            raise Inconclusive('Shapes.tla model checking reported: %s\n%s' % (err, out[-2500:]))
        gen, dist, depth = vlib.parse_mc_summary(out)
        cases = []
        for v in printed_values(out, 'CASE'):
            c = v[1]
            kind = 'query' if c['type'].startswith('q.') else ('keystore' if c['type'].startswith('ks.') else 'msg')
            cases.append(dict(k=kind, type=c['type'], f=c['f'], oracle=v[2]))
        cases.sort(key=lambda c: json.dumps(c, sort_keys=True))
        if pid == 'C16':
            cases = [c for c in cases if c['k'] == 'msg']
        # deterministic rotation by seed so that different seeds put different cases next to each other in the shared chains
        rot = (seed * 997) % max(1, len(cases))
        cases = cases[rot:] + cases[:rot]
        parts_in, parts_out, procs = [], [], []
        for ci, ch in enumerate(vlib.chunks(cases, vlib.NCPU)):
            fi = os.path.join(work, 'sh-cases-%d.ndjson' % ci)
            fo = os.path.join(work, 'sh-obs-%d.ndjson' % ci)
            with open(fi, 'w') as f:
                for c in ch:
                    f.write(json.dumps(c) + '\n')
            procs.append((subprocess.Popen([harness, 'shapes', fi, fo], stdout=subprocess.PIPE, stderr=subprocess.PIPE, text=True), fo))
        for p, fo in procs:
            so, se = p.communicate(timeout=3000)
            if p.returncode != 0:
                raise Inconclusive('harness shapes failed: ' + se[-3000:])
            parts_out.append(fo)
        write_raw_cfg(os.path.join(work, 'shtrace.cfg'), ['SPECIFICATION TraceSpec', 'CONSTANTS', '  Depth = 0', 'POSTCONDITION TraceAccepted', 'CHECK_DEADLOCK FALSE'])
        viol, drift, nl = validate_with(work, 'ShapesTrace.tla', 'shtrace.cfg', parts_out, heap='4g')
        chain_stats = None
        if pid == 'C17':
            # totality is also monitored on chain-level behaviours: every ABCI call of every replayed behaviour runs under recover, and
            # "end-of-block processing can never be halted by whatever state crafted transactions left behind" needs states that
            # transactions really left behind: deposits of zero/dust/huge amounts at the burn address, vesting there, mixed custom traffic
            behs = []
            for src in ('C07', 'C15', 'C08'):
                pre = configs.preset(src, 'quick')
                for si, sm in enumerate(pre['sims']):
                    got = vlib.simulate(work, sm['constants'], max(20, sm['num'] // (3 if q else 1)), sm['depth'], seed + 11 + si)
                    for bi, steps in enumerate(got):
                        behs.append(dict(id='C17-%s-%d-%d' % (src, si, bi), cfg=sm.get('genesis', {}), views='', steps=steps))
            # ... and a small DID state graph with rich documents (controller, services) and verification-method ids of other DIDs:
            # every message of the alphabet is fired at every state (handlers must return an error, not crash, for every stored document)
            tourc = configs.did(DocNames=S(['A1', 'R1']), Dids=S(['d1', 'dc']), ViewDids=S(['d1', 'dc']), Keys=S(['k1']), VmNames=S(['v1']), Seqs=S([0, 1]),
                                ForeignVm=True, MaxDeliver=1 if q else 2, MaxHeight=2)
            paths, alphabet, _, _ = vlib.tours(work, tourc)
            for ti, pth in enumerate([p for p in paths if all(a.get('name') != 'Deliver' or a.get('result') == 'ok' for a in p)]):
                behs.append(dict(id='C17-didtour-%d' % ti, cfg={}, views='', steps=pth, fire=alphabet))
            tr = vlib.replay(work, harness, behs)
            v3, d3, l3, _ = vlib.validate(work, tr)
            for v in v3:
                if v['id'] == 'C17':
                    v['run'] = 'chain:' + v['run']
            viol += v3
            drift += [d for d in d3 if d['kind'] == 'DRIFT']
            chain_stats = dict(behaviours=len(behs), steps=l3)
        jobs = {}
        for v in viol:
            if v['run'].startswith('chain:'):
                continue
            try:
                rec = json.loads(open(v['file']).read().splitlines()[v['line'] - 1])
                key = '%s:%s' % (v['run'], json.dumps(rec.get('c', {}).get('f', {}), sort_keys=True)[:160])
                jobs[key] = rec
                v['run'] = key
            except Exception:
                pass
        nobs = 0
        verdicts = {}
        for fo in parts_out:
            for ln in open(fo):
                nobs += 1
        for c in cases:
            verdicts[c['oracle']] = verdicts.get(c['oracle'], 0) + 1
        cov = dict(states=dist, transitions=gen, traces_validated_against_impl=len(cases), samples=[cases[0], cases[len(cases) // 3], cases[-1]], evaluations=nobs,
                   distinct_nontrivial=len(cases) - 1,
                   rule='cases = for each of the 14 message types%s: the valid baseline, every single field-shape deviation and every pair of deviations (enumerated by TLC from Shapes.tla); '
                        'each case is concretised into real bytes, encoded and decoded, validated, run through DeliverTx (every 7th also inside authz.MsgExec); all cases are distinct, all but the baselines non-trivial'
                        % (' and the 12 query types and key-store files' if pid == 'C17' else ''),
                   exhaustive=True, oracle_verdicts=verdicts, observation_records=nobs, chain_level_monitoring=chain_stats)
        return conclude(pid, tier, seed, t0, viol, drift, cov,
                        ['exhaustive over a finite lattice of field shapes designed from the published limits, not over all byte strings',
                         'readings of the published limits where they are silent are listed in the header of Shapes.tla'],
                        jobs, sig_of=lambda v: v['run'].split(':')[0])
    finally:
        shutil.rmtree(work, ignore_errors=True)


NO_STORE_THEN = {'vesting', 'genutil', 'crisis'}   # modules of the first descriptor's fromVM that had no KV store at that SDK version
STORE_NAME = {'auth': 'acc'}


def upgrades_static(work, harness):
    p = subprocess.run([harness, 'upgrades'], capture_output=True, text=True, env=dict(os.environ, VERIF_REPO=vlib.REPO))
    if p.returncode != 0:
        raise Inconclusive('harness upgrades failed: ' + p.stderr[-2000:])
    info = json.loads(p.stdout.strip().splitlines()[-1])
    desc = info['descriptors']
    baseline = {STORE_NAME.get(m, m) for m in info['firstDescriptorFromVM'] if m not in NO_STORE_THEN} | set(desc[0]['deleted'] if desc else [])
    dseq = '<<' + ', '.join('[name |-> "%s", added |-> %s, deleted |-> %s]' % (d['name'], tla_strset(d['added']), tla_strset(d['deleted'])) for d in desc) + '>>'
    mc_wrapper(work, 'MCUpgrades', 'Upgrades', dict(DescC=dseq, MountedC=tla_strset(info['mounted']), BaselineC=tla_strset(baseline)))
    viol = []
    stats = dict(descriptors=[d['name'] for d in desc], mounted=len(info['mounted']), baseline=sorted(baseline), renamed=sum(d['renamed'] for d in desc))
    for inv, prop in (('WellFormed', None), ('FinalIsMounted', None), ('NeverDeleteMounted', None), (None, 'StepOk')):
        lines = ['SPECIFICATION Spec', 'CONSTANTS', '  Descriptors <- DescC', '  Mounted <- MountedC', '  Baseline <- BaselineC']
        if inv:
            lines.append('INVARIANTS ' + inv)
        if prop:
            lines.append('PROPERTIES ' + prop)
        lines.append('CHECK_DEADLOCK FALSE')
        write_raw_cfg(os.path.join(work, 'upg.cfg'), lines)
        rc, out, wall = vlib.run_tlc(work, 'MCUpgrades.tla', 'upg.cfg', workers=1, heap='1g', timeout=300)
        name = inv or prop
        if vlib.tlc_failed(out) is None:
            stats[name] = 'holds'
        elif 'is violated' in out or 'is equal to FALSE' in out:
            # the constants ARE the code: a violated invariant here is a statement about the code's descriptors
            stats[name] = 'violated'
            viol.append(dict(kind='VIOLATION', id='C19', run='static:' + name, step=0, line=0, file=''))
        else:
            raise Inconclusive('Upgrades.tla: ' + out[-2000:])
    return viol, stats


CHECKS = {
    'C16': lambda tier, seed: shapes_check('C16', tier, seed),
    'C17': lambda tier, seed: shapes_check('C17', tier, seed),
    'C14': signbytes_check,
    'C18': compkey_check,
    'C09': replicas_check,
    'C20': concurrency_check,
    'C10': lambda tier, seed: node_check('C10', tier, seed),
    'C19': lambda tier, seed: node_check('C19', tier, seed),
}


def run(pid, tier, seed):
    return CHECKS[pid](tier, seed)


def replay(pid, payload):
    """re-executes a stored job of a node-level check against the current tree"""
    work = vlib.scratch('replay')
    try:
        vlib.copy_spec(work)
        harness = vlib.build_harness()
        job = payload.get('job')
        if pid in ('C10', 'C19') and job:
            traces = run_harness_jobs(work, harness, 'node', [job], nproc=1)
            mc_wrapper(work, 'MCNodeTrace', 'NodeTrace', dict(ShapesC='{}', UpC='{}'))
            write_raw_cfg(os.path.join(work, 'nodetrace.cfg'), ['SPECIFICATION TraceSpec', 'CONSTANTS', '  BlockShapes <- ShapesC', '  MaxCrashes = 1000', '  UpgradeAts <- UpC',
                                                                'POSTCONDITION TraceAccepted', 'CHECK_DEADLOCK FALSE'])
            viol, drift, lines = validate_with(work, 'MCNodeTrace.tla', 'nodetrace.cfg', traces)
            if pid == 'C19':
                sviol, _ = upgrades_static(work, harness)
                viol += sviol
            if [v for v in viol if v['id'] == pid]:
                print('VIOLATION property=%s replay=(given)' % pid)
                return 1
            print('OK replay: property %s holds on the current tree' % pid)
            return 0
        if pid in REPLAYERS:
            return REPLAYERS[pid](payload, work, harness)
        print('INCONCLUSIVE nothing to replay')
        return 2
    finally:
        shutil.rmtree(work, ignore_errors=True)


REPLAYERS = {}
