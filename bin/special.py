"""Checks that are not chain-level trace validation (filled in as they are built)."""
CHECKS = {}


def run(pid, tier, seed):
    return CHECKS[pid](tier, seed)


def replay(pid, payload):
    raise NotImplementedError
