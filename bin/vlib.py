"""Shared machinery of the checks: harness build, TLC runs, behaviour generation, replay, trace validation, evidence."""
import concurrent.futures as cf
import glob
import json
import os
import re
import shutil
import subprocess
import sys
import time

VERIF = os.path.dirname(os.path.dirname(os.path.abspath(__file__)))
REPO = os.environ.get('VERIF_REPO', '/repo')
SPEC = os.path.join(VERIF, 'spec')
OUT = os.path.join(VERIF, 'out')
JAVA_CP = '/opt/veriftools/tla/tla2tools.jar:/opt/veriftools/tla/CommunityModules-deps.jar'
NCPU = os.cpu_count() or 4

sys.path.insert(0, os.path.dirname(os.path.abspath(__file__)))
import tlaval  # noqa: E402

GOENV = dict(os.environ, GOFLAGS='-mod=mod', GOPROXY='off', GOSUMDB='off', GOTOOLCHAIN='local')


class Inconclusive(Exception):
    pass


def log(*a):
    print(*a, file=sys.stderr, flush=True)


def scratch(tag):
    d = os.path.join(OUT, 'scratch', '%s-%d-%d' % (tag, os.getpid(), int(time.time() * 1000) % 100000))
    os.makedirs(d, exist_ok=True)
    return d


# ---------------------------------------------------------------------------------------------
# harness build (always from the current working tree of $VERIF_REPO)

def build_harness(race=False):
    hdir = os.path.join(VERIF, 'harness')
    gomod = open(os.path.join(REPO, 'go.mod')).read()
    gomod = re.sub(r'^module .*$', 'module verif/harness', gomod, count=1, flags=re.M)
    gomod += '\nrequire github.com/medibloc/panacea-core/v2 v2.0.0\n\nreplace github.com/medibloc/panacea-core/v2 => %s\n' % REPO
    cur = ''
    try:
        cur = open(os.path.join(hdir, 'go.mod')).read()
    except OSError:
        pass
    if cur != gomod:
        open(os.path.join(hdir, 'go.mod'), 'w').write(gomod)
    shutil.copyfile(os.path.join(REPO, 'go.sum'), os.path.join(hdir, 'go.sum'))
    os.makedirs(os.path.join(OUT, 'bin'), exist_ok=True)
    binp = os.path.join(OUT, 'bin', 'harness-race' if race else 'harness')
    cmd = ['go', 'build', '-tags', 'verif', '-o', binp]
    if race:
        cmd.insert(2, '-race')
    t = time.time()
    p = subprocess.run(cmd + ['.'], cwd=hdir, env=GOENV, capture_output=True, text=True)
    if p.returncode != 0:
        raise Inconclusive('harness build failed:\n' + p.stdout[-3000:] + p.stderr[-3000:])
    log('harness built in %.1fs' % (time.time() - t))
    return binp


# ---------------------------------------------------------------------------------------------
# TLC

def write_cfg(path, spec='Spec', constants=None, props=(), invs=(), view=None, extra=()):
    lines = ['SPECIFICATION %s' % spec]
    if view:
        lines.append('VIEW %s' % view)
    lines.append('CONSTANTS')
    for k, v in (constants or {}).items():
        lines.append('  %s = %s' % (k, tla_const(v)))
    if props:
        lines.append('PROPERTIES ' + ' '.join(props))
    if invs:
        lines.append('INVARIANTS ' + ' '.join(invs))
    lines.append('CHECK_DEADLOCK FALSE')
    lines.extend(extra)
    open(path, 'w').write('\n'.join(lines) + '\n')


def tla_const(v):
    if isinstance(v, bool):
        return 'TRUE' if v else 'FALSE'
    if isinstance(v, int):
        return str(v)
    if isinstance(v, str):
        return '"%s"' % v
    if isinstance(v, (set, frozenset, list, tuple)):
        items = sorted(v, key=lambda x: (str(type(x)), x))
        return '{' + ', '.join(tla_const(x) for x in items) + '}'
    raise ValueError(v)


def copy_spec(dst):
    for f in glob.glob(os.path.join(SPEC, '*.tla')):
        shutil.copy(f, dst)


def run_tlc(workdir, module, cfg, args=(), workers=NCPU, heap='8g', timeout=3600, env=None):
    meta = os.path.join(workdir, 'meta-%d' % (int(time.time() * 1e6) % 10 ** 9))
    cmd = ['java', '-XX:+UseParallelGC', '-Xmx' + heap, '-Xss64m', '-cp', JAVA_CP, 'tlc2.TLC',
           '-workers', str(workers), '-metadir', meta, '-config', cfg] + list(args) + [module]
    e = dict(os.environ)
    if env:
        e.update(env)
    t = time.time()
    try:
        p = subprocess.run(cmd, cwd=workdir, env=e, capture_output=True, text=True, timeout=timeout)
    except subprocess.TimeoutExpired:
        raise Inconclusive('TLC timeout after %ds: %s' % (timeout, ' '.join(cmd)))
    finally:
        shutil.rmtree(meta, ignore_errors=True)
    return p.returncode, p.stdout + p.stderr, time.time() - t


def parse_mc_summary(out):
    m = re.search(r'(\d+) states generated, (\d+) distinct states found', out)
    gen, dist = (int(m.group(1)), int(m.group(2))) if m else (0, 0)
    m = re.search(r'depth of the complete state graph search is (\d+)', out)
    depth = int(m.group(1)) if m else 0
    return gen, dist, depth


def tlc_failed(out):
    """returns a short description when TLC reports an error of any kind, else None"""
    if 'Model checking completed. No error has been found.' in out:
        return None
    m = re.search(r'Error: (.*)', out)
    return m.group(1) if m else 'TLC did not complete'


def model_check(workdir, constants, props, invs, tier, workers=NCPU, timeout=3000, coverage=False):
    """Exhaustive TLC run on MC.tla. Returns dict(states, transitions, depth, wall, error, out)."""
    cfg = os.path.join(workdir, 'mc.cfg')
    write_cfg(cfg, 'Spec', constants, props, invs, view='StateView')
    args = ['-coverage', '1'] if coverage else []
    rc, out, wall = run_tlc(workdir, 'MC.tla', 'mc.cfg', args=args, workers=workers, timeout=timeout, heap='24g')
    gen, dist, depth = parse_mc_summary(out)
    err = tlc_failed(out)
    res = dict(states=dist, transitions=gen, depth=depth, wall=wall, error=err, out=out)
    if coverage:
        res['zero_cov'] = re.findall(r'^\s*<(\w+) line[^>]*>: 0:0', out, flags=re.M)
    return res


def simulate(workdir, constants, num, depth, seed, timeout=900):
    """tlc -simulate: returns a list of behaviours (each a list of act dicts, Init excluded)."""
    cfg = os.path.join(workdir, 'sim.cfg')
    write_cfg(cfg, 'Spec', constants)
    simdir = os.path.join(workdir, 'sim-%d' % seed)
    os.makedirs(simdir, exist_ok=True)
    # several TLC processes in parallel, each with its own seed
    nproc = min(NCPU, max(1, num // 50))
    per = (num + nproc - 1) // nproc

    def one(k):
        rc, out, wall = run_tlc(workdir, 'MC.tla', 'sim.cfg',
                                args=['-simulate', 'file=%s/b%d,num=%d' % (simdir, k, per), '-depth', str(depth), '-seed', str(seed * 1000 + k), '-deadlock'],
                                workers=1, heap='2g', timeout=timeout)
        if 'Error:' in out and 'traces generated' not in out:
            raise Inconclusive('TLC simulate failed: ' + out[-2000:])
        return out

    with cf.ThreadPoolExecutor(nproc) as ex:
        list(ex.map(one, range(nproc)))
    behs = []
    for f in sorted(glob.glob(os.path.join(simdir, 'b*'))):
        states = tlaval.parse_sim_file(f)
        steps = [a for a in (tlaval.to_json(s['act']) for s in states[1:]) if a.get('name') != 'Noop']
        if steps:
            behs.append(steps)
    shutil.rmtree(simdir, ignore_errors=True)
    return behs


def tours(workdir, constants, timeout=1500, probes=False, fanout=0):
    """Exhaustive TLC run that prints every distinct state once with a shortest path, and the transaction alphabet.
    Returns (paths, alphabet, states, transitions): paths = list of lists of act dicts."""
    cfg = os.path.join(workdir, 'tour.cfg')
    write_cfg(cfg, 'Spec', constants, (), ['TourDump', 'AlphabetDump'] + (['ProbeDump'] if probes else []), view='StateView')
    rc, out, wall = run_tlc(workdir, 'MC.tla', 'tour.cfg', workers=NCPU, timeout=timeout, heap='16g')
    err = tlc_failed(out)
    if err:
        raise Inconclusive('tour generation failed: %s\n%s' % (err, out[-2000:]))
    gen, dist, depth = parse_mc_summary(out)
    paths, alphabet, probe_txs = [], [], []
    for m in re.finditer(r'^<<"(TOUR|ALPHABET|PROBES)", "(.*)">>$', out, flags=re.M):
        js = json.loads('"' + m.group(2) + '"')
        val = json.loads(js)
        if m.group(1) == 'TOUR':
            paths.append(val)
        elif m.group(1) == 'PROBES':
            probe_txs = val
        else:
            alphabet = val
    if probe_txs:
        # after EVERY probe the whole single-transaction alphabet is fired again (a later probe may undo what an earlier one left behind)
        # (and re-fired before every single transaction: one that changes the state is undone by a restart, which also wipes process memory)
        # fanout > 0: each probe is followed by `fanout` transactions of the alphabet only, a different window per probe (every transaction is
        # still paired with many probes); 0 = every (probe, transaction) pair
        fire = []
        for pi, p in enumerate(probe_txs):
            if fanout and fanout < len(alphabet):
                start = (pi * 7) % len(alphabet)
                follow = [alphabet[(start + k * max(1, len(alphabet) // fanout)) % len(alphabet)] for k in range(fanout)]
            else:
                follow = alphabet
            for a in follow:
                fire.append(p)
                fire.append(a)
        return paths, fire, dist, gen
    return paths, alphabet, dist, gen


# ---------------------------------------------------------------------------------------------
# replay + validation

def chunks(lst, n):
    n = max(1, min(n, len(lst)))
    k = (len(lst) + n - 1) // n
    return [lst[i:i + k] for i in range(0, len(lst), k)]


def replay(workdir, harness, behaviours, nproc=NCPU):
    """behaviours: list of dict(id, cfg, views, steps). Returns list of trace file paths (one per chunk)."""
    outs = []
    procs = []
    for ci, ch in enumerate(chunks(behaviours, nproc)):
        bf = os.path.join(workdir, 'beh-%d.ndjson' % ci)
        tf = os.path.join(workdir, 'trace-%d.ndjson' % ci)
        with open(bf, 'w') as f:
            for b in ch:
                f.write(json.dumps(b) + '\n')
        procs.append((subprocess.Popen([harness, 'replay', bf, tf], stdout=subprocess.PIPE, stderr=subprocess.PIPE, text=True), tf))
    for p, tf in procs:
        so, se = p.communicate(timeout=3600)
        if p.returncode != 0:
            raise Inconclusive('harness replay failed: ' + se[-3000:])
        outs.append(tf)
    return outs


_report_re = re.compile(r'<<"(VIOLATION|DRIFT)", "([^"]*)", "([^"]*)", (\d+), (\d+)>>')


def validate(workdir, trace_files, accts=('a1', 'a2', 'a3', 'a4'), timeout=3000):
    """Runs Trace.tla over every trace file (in parallel). Returns (violations, drifts, lines_checked, outputs)."""
    cfg = os.path.join(workdir, 'trace.cfg')
    write_cfg(cfg, 'TraceSpec', dict(Accts=set(accts), FeeUnit=1000, Deviations=set(), MaxHeight=1000000, ViewTopics=set(), ViewDids=set(), ViewDenoms=set(), ViewTokens=set()),
              extra=['POSTCONDITION TraceAccepted'])

    def one(tf):
        rc, out, wall = run_tlc(workdir, 'Trace.tla', 'trace.cfg', workers=1, heap='3g', timeout=timeout, env={'TRACE_FILE': tf})
        return tf, out

    viol, drift, outs = [], [], []
    lines = 0
    with cf.ThreadPoolExecutor(min(NCPU, len(trace_files) or 1)) as ex:
        for tf, out in ex.map(one, trace_files):
            n = sum(1 for _ in open(tf))
            lines += n
            err = tlc_failed(out)
            if err is not None:
                raise Inconclusive('trace validation did not complete on %s: %s\n%s' % (tf, err, out[-3000:]))
            for m in _report_re.finditer(out):
                rec = dict(kind=m.group(1), id=m.group(2), run=m.group(3), step=int(m.group(4)), line=int(m.group(5)), file=tf)
                (viol if rec['kind'] == 'VIOLATION' else drift).append(rec)
            for m in re.finditer(r'<< "DRIFTDETAIL",.*?>> >>', out, flags=re.S):
                drift.append(dict(kind='DETAIL', id='detail', run='', step=0, line=0, file=tf, text=re.sub(r'\s+', ' ', m.group(0))[:1500]))
            outs.append(out)
    return viol, drift, lines, outs


def load_behaviour_trace(trace_file, run):
    recs = []
    for ln in open(trace_file):
        if '"run":"%s"' % run in ln or '"run": "%s"' % run in ln:
            recs.append(json.loads(ln))
    return recs


# ---------------------------------------------------------------------------------------------
# evidence / findings

def load_known():
    p = os.path.join(VERIF, 'known_findings.json')
    try:
        return json.load(open(p))
    except OSError:
        return {'findings': []}


def write_evidence(pid, tier, seed, coverage, wall, violations, assumptions, level='model_checking'):
    os.makedirs(os.path.join(VERIF, 'evidence'), exist_ok=True)
    try:
        coverage = dict(coverage, binding_selftest=json.load(open(os.path.join(OUT, 'selftest.json'))))
    except (OSError, ValueError):
        coverage = dict(coverage, binding_selftest='not run in this sandbox yet (bin/setup runs it)')
    ev = dict(property_id=pid, tier=tier, seed=seed, level=level, coverage=coverage, assumptions=assumptions,
              wall_s=round(wall, 2), violations=violations)
    tmp = os.path.join(VERIF, 'evidence', pid + '.json.tmp')
    json.dump(ev, open(tmp, 'w'), indent=1)
    os.replace(tmp, os.path.join(VERIF, 'evidence', pid + '.json'))


def save_replay(pid, n, payload):
    d = os.path.join(OUT, pid)
    os.makedirs(d, exist_ok=True)
    p = os.path.join(d, 'replay-%d.json' % n)
    json.dump(payload, open(p, 'w'), indent=1)
    return p
