#!/bin/bash
# usage: bin/verify_seed.sh <ID> <pkgs for suite...>
# expects the sub-agent worktree at /tmp/w6_<ID> (change applied, demo test seed6_*_test.go untracked). Suite-method demos (no top-level func Test) must be re-run by hand.
# confirms: demo fails with change, passes without; given suite packages pass with change; stores under /verif/seeded/<ID>-6
export GOFLAGS=-mod=mod GOPROXY=off GOSUMDB=off GOTOOLCHAIN=local
id=$1; shift
w=/tmp/w6_$id
cd $w || exit 2
demo=$(git status --short | grep -i 'seed6_.*_test.go' | awk '{print $2}' | head -1)
[ -n "$demo" ] || { echo "no demo"; exit 2; }
pkg=./$(dirname $demo)
name=$(grep -o 'func Test[A-Za-z0-9_]*' $demo | head -1 | sed 's/func //')
git diff > /tmp/w6_$id.patch   # tracked changes only (demo is untracked)
[ -s /tmp/w6_$id.patch ] || { echo "empty patch"; exit 2; }
go build ./... || { echo "BUILD FAILS"; exit 2; }
go test -vet=off -count=1 -run "^$name\$" $pkg > /tmp/w6_$id.with.log 2>&1; with=$?
mv $demo /tmp/w6_$id.demo.go
go test -vet=off -count=1 "$@" > /tmp/w6_$id.suite.log 2>&1; suite=$?
mv /tmp/w6_$id.demo.go $demo
git apply -R /tmp/w6_$id.patch
go test -vet=off -count=1 -run "^$name\$" $pkg > /tmp/w6_$id.without.log 2>&1; without=$?
git apply /tmp/w6_$id.patch
echo "id=$id demo=$demo test=$name with=$with suite=$suite without=$without"
d=/verif/seeded/$id-6
mkdir -p $d
cp /tmp/w6_$id.patch $d/patch.diff
cp $demo $d/
[ -f SEED_NOTES.md ] && cp SEED_NOTES.md $d/notes.md
cat > $d/meta.json <<EOF
{
 "property": "$id",
 "breaks": "$id",
 "wave": 6,
 "origin": "written by an independent sub-agent that saw only the property text (plus one line each on the mechanisms of earlier seeds, to be avoided) and a scratch worktree of /repo",
 "needs_to_manifest": "see notes.md",
 "demonstration": "$demo ($name)",
 "confirmed_by_me": {
  "ran": "/tmp/verify_seed6.sh $id $* (go build; demo test with the change; listed packages with the change and the demo removed; demo test with the change reverted)",
  "with_change_demo_exit": $with,
  "suite_with_change_exit": $suite,
  "without_change_demo_exit": $without
 },
 "detection": "see DESIGN.md section 0.5 (wave 6)"
}
EOF
