"""Bounded configurations of MC.tla per property and tier; hand-written corner behaviours; non-triviality rules."""
import copy

S = set

BASE = dict(
    Accts=S(['a1', 'a2', 'a3']), FeeUnit=1000, MaxHeight=3, Deviations=S(),
    Topics=S(), Descs=S(['x']), Mons=S(['m']), RecKeys=S(['k1']), RecVals=S(['v1', 'v2']), FeePayers=S(['none']),
    Dids=S(), DocNames=S(), Keys=S(), VmNames=S(), Seqs=S([0, 1, 2]), ForeignVm=False, NearProofs=False, LegacyGenesis=False,
    DenomIds=S(), TokenIds=S(), DNames=S(), TDescs=S(['']),
    Amts=S(), GovAmts=S(), SendDenoms=S(), VestEnds=S(),
    Fees=S([0]), Kinds=S(), SignerSets='exact', ExecOn=False,
    MaxDeliver=5, MaxTxLen=1, Fees2=S([0]), Tips=S(['none']), Mints=S([0]), NextKinds=S(['BeginBlock']), FailKeep=1, SimSample=0, BlockKeep=1,
    ViewTopics=S(), ViewDids=S(), ViewDenoms=S(), ViewTokens=S(),
)

AOL_KINDS = S(['aol.CreateTopic', 'aol.AddWriter', 'aol.DeleteWriter', 'aol.AddRecord'])
DID_KINDS = S(['did.Create', 'did.Update', 'did.Deactivate'])
PN_KINDS = S(['pnft.CreateDenom', 'pnft.UpdateDenom', 'pnft.DeleteDenom', 'pnft.TransferDenom', 'pnft.Mint', 'pnft.Transfer', 'pnft.Burn'])
ALL_NEXT = S(['BeginBlock', 'RestartBegin', 'ExportImportBegin'])
ALL_NEXT_R = ALL_NEXT | S(['Redeliver'])
ALL_NEXT_N = ALL_NEXT_R | S(['Noise', 'Resubmit'])      # + mempool / gas-estimation noise and re-submission of earlier messages


def mk(**kw):
    c = copy.deepcopy(BASE)
    c.update(kw)
    return c


FAMILY = {
    'C01': 'aol', 'C02': 'aol', 'C13': 'aol', 'C15': 'mixed',
    'C03': 'did', 'C04': 'did', 'C05': 'did', 'C11': 'did',
    'C06': 'pnft', 'C12': 'pnft',
    'C07': 'burn', 'C08': 'genesis',
}


def aol(**kw):
    # empty optional fields are part of every AOL alphabet: a topic without description, writers and records encodes to ZERO bytes in the store
    d = dict(Topics=S(['t1', 't2']), ViewTopics=S(['t1', 't2']), Kinds=AOL_KINDS, Descs=S(['x', '']), Mons=S(['m', '']))
    d.update(kw)
    return mk(**d)


def did(**kw):
    d = dict(Accts=S(['a1', 'a2']), Dids=S(['d1', 'dc']), ViewDids=S(['d1', 'dc']), Keys=S(['k1', 'k2', 'k3']), VmNames=S(['v1', 'v2']),
             DocNames=S(['A1', 'A2', 'C1', 'D2']), Kinds=DID_KINDS)
    d.update(kw)
    return mk(**d)


def pn(**kw):
    d = dict(DenomIds=S(['n1', 'n2']), TokenIds=S(['i1', 'i2']), DNames=S(['x']), ViewDenoms=S(['n1', 'n2']), ViewTokens=S(['i1', 'i2']), Kinds=PN_KINDS)
    d.update(kw)
    return mk(**d)


def burn(**kw):
    d = dict(Accts=S(['a1', 'a2']), Kinds=S(['bank.Send', 'bank.SendMod', 'bank.MultiSend', 'vesting.Create']), Amts=S([0, 7]), SendDenoms=S(['umed', 'ubig']),
             VestEnds=S([4]), MaxHeight=5, Fees=S([0]))
    d.update(kw)
    return mk(**d)


def sim(constants, num, depth, genesis=None, views=''):
    if constants.get('SimSample', 0) == 0:
        constants = dict(constants, SimSample=40)
    if constants.get('BlockKeep', 1) == 1:
        constants = dict(constants, BlockKeep=4, MaxHeight=max(constants['MaxHeight'], 12))
    return dict(constants=constants, num=num, depth=depth, genesis=genesis or {}, views=views)


def preset(pid, tier):
    q = tier == 'quick'
    if pid == 'C01':
        return dict(
            mc=aol(Descs=S(['x']), Mons=S(['m']), MaxDeliver=5 if q else 6, NextKinds=ALL_NEXT, MaxHeight=3),
            props=['P_C01', 'P_C08', 'P_C10'], invs=['I_C01'],
            tour=aol(Accts=S(['a1', 'a2']), Topics=S(['t1']), ViewTopics=S(['t1']), Descs=S(['x']), Mons=S(['m']), FeePayers=S(['none', 'a1']), MaxDeliver=4 if q else 5, MaxHeight=2),
            sims=[sim(aol(Accts=S(['a1', 'a2', 'a3', 'a4']), Topics=S(['t1', 't2', 't3']), ViewTopics=S(['t1', 't2', 't3']), RecKeys=S(['k1', 'k2', '']), RecVals=S(['v1', 'v2', '']),
                          FeePayers=S(['none', 'a1', 'a3']), MaxDeliver=40, MaxHeight=8, NextKinds=ALL_NEXT_N, FailKeep=40), 120 if q else 2000, 50),
                  sim(aol(MaxDeliver=12, MaxHeight=6, NextKinds=ALL_NEXT, FailKeep=10), 80 if q else 1500, 25, genesis=dict(mint=True)),
                  # account a2 spells its address in upper case in every message field (owner, writer, fee payer): the same account
                  sim(aol(FeePayers=S(['none', 'a2']), MaxDeliver=14, MaxHeight=5, NextKinds=ALL_NEXT, FailKeep=10), 30 if q else 500, 25, genesis=dict(upper=['a2']))])
    if pid == 'C02':
        return dict(
            mc=aol(Topics=S(['t1']), ViewTopics=S(['t1']), RecVals=S(['v1']), Descs=S(['x']), Mons=S(['m']), SignerSets='all', FeePayers=S(['none', 'a1', 'a2']), MaxDeliver=4 if q else 5,
                   ExecOn=True, Kinds=AOL_KINDS | S(['authz.Grant']), MaxHeight=2),
            props=['P_C02'], invs=[],
            tour=[dict(constants=aol(Accts=S(['a1', 'a2', 'a3']), Topics=S(['t1']), ViewTopics=S(['t1']), RecVals=S(['v1']), Descs=S(['x']), Mons=S(['m']), SignerSets='all', FeePayers=S(['none', 'a1', 'a2']),
                                     MaxDeliver=3 if q else 4, MaxHeight=2, ExecOn=False)),
                  # rollback probes: [m1, m2, always-failing] for every ordered pair, then the whole alphabet again - in the same process
                  dict(constants=aol(Accts=S(['a1', 'a2']), Topics=S(['t1']), ViewTopics=S(['t1']), RecVals=S(['v1']), Descs=S(['x']), Mons=S(['m']), MaxDeliver=2 if q else 3, MaxHeight=2), probes=True),
                  # two topics of one owner whose names differ only in letter case: a writer of one is not a writer of the other
                  dict(constants=aol(Accts=S(['a1', 'a2']), Topics=S(['t1', 'tc']), ViewTopics=S(['t1', 'tc']), RecVals=S(['v1']), Descs=S(['x']), Mons=S(['m']), MaxDeliver=3 if q else 4, MaxHeight=2))],
            sims=[sim(aol(Accts=S(['a1', 'a2', 'a3', 'a4']), SignerSets='all', FeePayers=S(['none', 'a1', 'a2', 'a3']), ExecOn=True,
                          Kinds=AOL_KINDS | S(['authz.Grant', 'authz.Revoke']), Fees=S([0, 1]), MaxDeliver=40, MaxHeight=6, FailKeep=8, NextKinds=ALL_NEXT_N), 150 if q else 3000, 40),
                  # three-message transactions over one topic: work done by the first messages and rolled back by a failing last one must leave no authorisation behind
                  sim(aol(Accts=S(['a1', 'a2', 'a3']), Topics=S(['t1']), ViewTopics=S(['t1']), RecVals=S(['v1']), MaxTxLen=3, MaxDeliver=25, MaxHeight=5, FailKeep=2, SimSample=36),
                      60 if q else 1200, 30)])
    if pid == 'C13':
        return dict(
            mc=aol(Mons=S(['m']), MaxDeliver=5 if q else 6, MaxHeight=2),
            props=[], invs=['I_C13'],
            tour=aol(Accts=S(['a1', 'a2']), Topics=S(['t1', 't2']) if not q else S(['t1']), ViewTopics=S(['t1', 't2']), RecVals=S(['v1']), Mons=S(['m']), MaxDeliver=4 if q else 5, MaxHeight=2),
            sims=[sim(aol(Accts=S(['a1', 'a2', 'a3', 'a4']), Topics=S(['t1', 't2', 't3', 't4']), ViewTopics=S(['t1', 't2', 't3', 't4']),
                          MaxDeliver=50, MaxHeight=5, FailKeep=60), 60 if q else 1000, 60, views='full'),
                  # more topics under one owner, and more writers and records in one topic, than any default page size (150 bulk entries owned by a4);
                  # a4 and the bulk topic are part of the alphabet, so the bulk entries are extended and paged through with every request shape
                  sim(aol(Accts=S(['a1', 'a4']), Topics=S(['t1', 'f000']), ViewTopics=S(['t1', 'f000', 'f001']), RecVals=S(['v1']), MaxDeliver=12, MaxHeight=4, FailKeep=20),
                      10 if q else 120, 25, genesis=dict(bulk=150), views='full')])
    if pid == 'C15':
        kinds = S(['aol.CreateTopic', 'aol.AddWriter', 'aol.AddRecord', 'did.Create', 'pnft.CreateDenom', 'pnft.Mint'])
        c = mk(Topics=S(['t1']), ViewTopics=S(['t1']), RecVals=S(['v1']), FeePayers=S(['none', 'a2']), Accts=S(['a1', 'a2']),
               Dids=S(['d1']), ViewDids=S(['d1']), Keys=S(['k1']), VmNames=S(['v1']), DocNames=S(['A1']),
               DenomIds=S(['n1']), TokenIds=S(['i1']), DNames=S(['x']), ViewDenoms=S(['n1']), ViewTokens=S(['i1']),
               Kinds=kinds, Fees=S([0, 1]), Fees2=S([0, 3, 2000]), MaxTxLen=2, MaxDeliver=2, MaxHeight=2, NextKinds=S(['BeginBlock', 'Redeliver']))
        big = copy.deepcopy(c)
        big.update(Accts=S(['a1', 'a2', 'a3']), FeePayers=S(['none', 'a1', 'a3']), MaxDeliver=20, MaxHeight=5, FailKeep=2, Fees2=S([0, 3]), Tips=S(['none', 'a2']), SimSample=20,
                   Kinds=kinds | S(['aol.DeleteWriter']), DocNames=S(['A1', 'A2', 'R1']), Keys=S(['k1', 'k2']))
        # rollback probes over a one-account mixed alphabet: [m1, m2, always-failing] must leave nothing behind, in the stores or in process memory
        pr = mk(Topics=S(['t1']), ViewTopics=S(['t1']), RecVals=S(['v1']), Accts=S(['a1']), Dids=S(['d1']), ViewDids=S(['d1']), Keys=S(['k1']), VmNames=S(['v1']), DocNames=S(['A1']),
                Seqs=S([0]), DenomIds=S(['n1']), TokenIds=S(['i1']), DNames=S(['x']), ViewDenoms=S(['n1']), ViewTokens=S(['i1']), Kinds=kinds, MaxDeliver=2 if q else 3, MaxHeight=2)
        return dict(mc=c, props=['P_C15'], invs=[], tour=[dict(constants=pr, probes=True)], sims=[sim(big, 100 if q else 2000, 30)], mc_timeout=2400)
    if pid in ('C03', 'C04', 'C05', 'C11'):
        props = {'C03': ['P_C03'], 'C04': ['P_C04'], 'C05': ['P_C05', 'P_C08', 'P_C10'], 'C11': []}[pid]
        invs = {'C03': [], 'C04': ['I_C04'], 'C05': ['I_C05'], 'C11': ['I_C11']}[pid]
        # thorough bounds fitted to measured state counts: 6 documents x 5 deliveries = 89k states / 99M transitions / 9 min (C03, C11); the configurations with
        # Redeliver (C04) or restart/export actions over 3 heights (C05) keep 4 deliveries
        # measured (16 workers, idle machine): 4 documents x 5 deliveries = 33k states / 30M transitions / 3 min; 6 x 4 = 14k / 11.6M / 1 min; 6 x 5 = 89k / 99M / 9 min
        deep = pid in ('C03', 'C11')
        docs = S(['A1', 'A2', 'C1', 'D2']) if (q or deep) else S(['A1', 'A2', 'C1', 'D2', 'F12', 'U1'])
        mcc = did(DocNames=docs, MaxDeliver=4 if (q or not deep) else 5, MaxHeight=3 if pid == 'C05' else 2,
                  NextKinds=ALL_NEXT if pid == 'C05' else (S(['BeginBlock', 'Redeliver']) if pid == 'C04' else S(['BeginBlock'])))
        simc = did(Accts=S(['a1', 'a2', 'a3']), Dids=S(['d1', 'd2', 'dc']), ViewDids=S(['d1', 'd2', 'dc']),
                   DocNames=S(['A1', 'A2', 'B12', 'C1', 'D2', 'E1', 'F12', 'R1', 'U1', 'X1', 'N0', 'EMP']), ForeignVm=True, NearProofs=True, MaxDeliver=30, MaxHeight=6, NextKinds=ALL_NEXT_R, FailKeep=25)
        tourc = did(DocNames=S(['A1', 'A2', 'F12', 'U1']), Keys=S(['k1', 'k2']) if q else S(['k1', 'k2', 'k3']), MaxDeliver=3 if (not q and pid == 'C03') else 2, MaxHeight=2)   # thorough: a third key; C03 also one delivery deeper (598k trace steps, ~25 min idle)
        if pid == 'C11':
            # the read operation is also asked for dp, a valid identifier that is a proper prefix of d1's and never registered
            simc = dict(simc, ViewDids=simc['ViewDids'] | S(['dp']))
            tourc = dict(tourc, ViewDids=tourc['ViewDids'] | S(['dp']))
            # documents whose method ids carry the twin did's prefix: fired at every toured state, with the DID field naming the twin
            tourc = dict(tourc, DocNames=tourc['DocNames'] | S(['X1']))
        sims = [sim(simc, 150 if q else 1500, 50)]
        if pid in ('C03', 'C04'):
            # few document shapes, so that rich documents (which name the OTHER did as controller) are stored often, and cross-entry proofs (DidCross) meet
            # registry entries whose sequence numbers differ
            cross = did(Accts=S(['a1', 'a2']), Dids=S(['d1', 'dc']), ViewDids=S(['d1', 'dc']), DocNames=S(['A1', 'A2', 'R1']), Keys=S(['k1', 'k2']), VmNames=S(['v1']),
                        ForeignVm=True, MaxDeliver=30, MaxHeight=5, NextKinds=ALL_NEXT_R, FailKeep=25)
            sims.append(sim(cross, 60 if q else 1000, 40))
        if pid == 'C04':
            # clients estimate gas by simulating the transaction they then broadcast; accepted messages are submitted again later in fresh transactions
            again = did(Accts=S(['a1', 'a2']), Dids=S(['d1', 'dc']), ViewDids=S(['d1', 'dc']), DocNames=S(['A1', 'A2']), Keys=S(['k1', 'k2']), VmNames=S(['v1']), NearProofs=True,
                        MaxDeliver=24, MaxHeight=6, NextKinds=ALL_NEXT_N, FailKeep=25)
            sims.append(sim(again, 40 if q else 600, 40, genesis=dict(simfirst=True)))
            sims.append(sim(again, 20 if q else 300, 40))
        if pid == 'C05':
            # histories that start from a legacy registry entry (key dc holding a document about d1): deactivation must tombstone the KEY that was addressed
            legacy = did(Accts=S(['a1', 'a2']), Dids=S(['d1', 'dc']), ViewDids=S(['d1', 'dc']), DocNames=S(['A1', 'A2']), Keys=S(['k1', 'k2']), VmNames=S(['v1']),
                         ForeignVm=True, LegacyGenesis=True, MaxDeliver=12, MaxHeight=5, NextKinds=ALL_NEXT, FailKeep=25)
            sims.append(sim(legacy, 40 if q else 600, 30, genesis=dict(legacydid=True)))
            # a registry with more entries than any default page size (150 bulk entries sorting before the alphabet's DIDs)
            bulk = did(Accts=S(['a1', 'a2']), Dids=S(['d1', 'd2']), ViewDids=S(['d1', 'd2']), DocNames=S(['A1', 'A2']), Keys=S(['k1', 'k2']), VmNames=S(['v1']), NearProofs=True,
                       MaxDeliver=10, MaxHeight=5, NextKinds=ALL_NEXT, FailKeep=25)
            sims.append(sim(bulk, 24 if q else 300, 30, genesis=dict(bulk=150)))
            # read noise: before every step's views the same queries are served at the previous committed height; transactions are simulated before delivery
            sims.append(sim(bulk, 30 if q else 400, 30, genesis=dict(oldreads=True, simfirst=True)))
        return dict(mc=mcc, props=props, invs=invs, tour=tourc, sims=sims, mc_timeout=5400)
    if pid in ('C06', 'C12'):
        props = {'C06': ['P_C06'], 'C12': ['P_C12']}[pid]
        invs = {'C06': [], 'C12': ['I_C12']}[pid]
        mcc = pn(SignerSets='all' if pid == 'C06' else 'exact', MaxDeliver=(5 if pid == 'C06' else 6) if q else 8, MaxHeight=2, TokenIds=S(['i1']) if (pid == 'C06' and q) else S(['i1', 'i2']),
                 ViewTokens=S(['i1']) if (pid == 'C06' and q) else S(['i1', 'i2']))
        simc = pn(Accts=S(['a1', 'a2', 'a3', 'a4']), DenomIds=S(['n1', 'n2', 'n3', 'nz']), TokenIds=S(['i1', 'i2', 'i3', 'iz']), ViewDenoms=S(['n1', 'n2', 'n3', 'nz']),
                  ViewTokens=S(['i1', 'i2', 'i3', 'iz']),
                  DNames=S(['x', 'y']), TDescs=S(['', 'q']), SignerSets='all', ExecOn=True, Kinds=PN_KINDS | S(['authz.Grant']), MaxDeliver=40, MaxHeight=6, NextKinds=ALL_NEXT, FailKeep=30)
        if pid == 'C06':
            # prefix-related denom ids ("a", "ab") owned by different accounts, every signer set
            tourc = pn(Accts=S(['a1', 'a2']), SignerSets='all', DenomIds=S(['n1', 'n2']), TokenIds=S(['i1']), ViewDenoms=S(['n1', 'n2']), ViewTokens=S(['i1']),
                       MaxDeliver=3 if q else 4, MaxHeight=2)
        else:
            # two tokens in one denom with empty and non-empty optional fields; every listing is compared with the single-item view after each step
            tourc = pn(Accts=S(['a1', 'a2']), DenomIds=S(['n1']) if q else S(['n1', 'n2']), TokenIds=S(['i1', 'i2']), TDescs=S(['', 'q']), ViewDenoms=S(['n1', 'n2']),
                       ViewTokens=S(['i1', 'i2']), MaxDeliver=3 if q else 4, MaxHeight=2)
        # a generator that believes NUL-bearing identifiers are fine: long chains of messages over aliasing pairs (nz,iy)/(n1,iz).
        # The judge (Trace.tla) keeps the intended behaviour: on a correct tree every such message is a predicted stateless rejection.
        hostile = pn(Accts=S(['a1', 'a2']), DenomIds=S(['n1', 'nz']), TokenIds=S(['iz', 'iy']), ViewDenoms=S(['n1', 'nz']), ViewTokens=S(['iz', 'iy']),
                     Kinds=S(['pnft.CreateDenom', 'pnft.Mint', 'pnft.Transfer', 'pnft.Burn']), MaxDeliver=20, MaxHeight=4, FailKeep=20, Deviations=S(['nulids']))
        # dense traffic over aliasing-prone identifier pairs: a prefix pair ("a", "ab") and a case pair ("a", "A"), two token ids (per-denom vs per-token rights), two accounts
        pair1 = pn(Accts=S(['a1', 'a2']), DenomIds=S(['n1', 'n2']), TokenIds=S(['i1', 'i2']), ViewDenoms=S(['n1', 'n2']), ViewTokens=S(['i1', 'i2']), MaxDeliver=40, MaxHeight=6,
                   NextKinds=ALL_NEXT_N, FailKeep=5)       # FailKeep low: attacks are transactions the specification REJECTS; they must not be filtered away
        pair2 = pn(Accts=S(['a1', 'a2']), DenomIds=S(['n1', 'nc']), TokenIds=S(['i1', 'ic']), ViewDenoms=S(['n1', 'nc']), ViewTokens=S(['i1', 'ic']), MaxDeliver=30, MaxHeight=6,
                   NextKinds=ALL_NEXT, FailKeep=30)
        # 150 bulk denoms and 150 bulk tokens in one denom, all owned by a4: listings beyond any default page size; a4 and the bulk denom are in the alphabet
        bulkp = pn(Accts=S(['a1', 'a4']), DenomIds=S(['n1', 'f000']), TokenIds=S(['i1', 'g000']), ViewDenoms=S(['n1', 'f000', 'f001']), ViewTokens=S(['i1', 'g000', 'g001']),
                   MaxDeliver=12, MaxHeight=4, NextKinds=ALL_NEXT, FailKeep=20)
        # rollback probes over a small PNFT alphabet: [m1, m2, always-failing] before every alphabet transaction - a hand-over or an update that was rolled back
        # must leave nothing behind (in the stores or in process memory) that changes who may act next
        probec = pn(Accts=S(['a1', 'a2']), DenomIds=S(['n1']), TokenIds=S(['i1']), ViewDenoms=S(['n1']), ViewTokens=S(['i1']), MaxDeliver=2 if q else 3, MaxHeight=2)
        # a deeper tour over a minimal token alphabet (one denom, two tokens, two accounts; create / mint / transfer / burn only): every state within
        # four deliveries - e.g. "each account holds one token of the denom" - meets every transfer and burn by everybody
        deepc = pn(Accts=S(['a1', 'a2']), DenomIds=S(['n1']), TokenIds=S(['i1', 'i2']), ViewDenoms=S(['n1']), ViewTokens=S(['i1', 'i2']),
                   Kinds=S(['pnft.CreateDenom', 'pnft.Mint', 'pnft.Transfer', 'pnft.Burn']), MaxDeliver=4 if q else 5, MaxHeight=2)
        return dict(mc=mcc, props=props, invs=invs, tour=[dict(constants=tourc), dict(constants=probec, probes=True, fanout=6 if q else 0), dict(constants=deepc)],
                    sims=[sim(simc, 150 if q else 3000, 60), sim(hostile, 40 if q else 600, 30), sim(pair1, 50 if q else 800, 40), sim(pair2, 30 if q else 500, 40),
                          # account a2 spells its address in upper case (a legal bech32 spelling of the same address) in every message field
                          sim(pair1, 30 if q else 500, 40, genesis=dict(upper=['a2'])),
                          sim(bulkp, 10 if q else 120, 25, genesis=dict(bulk=150))], mc_timeout=2400)
    if pid == 'C07':
        mcc = burn(MaxDeliver=3 if q else 5, MaxHeight=5, GovAmts=S([5]), NextKinds=S(['BeginBlock', 'GovSchedule']))      # thorough: 661k states / 9.2M transitions
        simc = burn(Accts=S(['a1', 'a2', 'a3']), Amts=S([0, 1, 7, 1000]), Kinds=S(['bank.Send', 'bank.SendAcct', 'bank.SendMod', 'bank.MultiSend', 'vesting.Create']),
                    VestEnds=S([4, 6]), MaxDeliver=30, MaxHeight=9, FailKeep=3)
        # a route that needs no transaction in the block in which the coins arrive: governance community-pool spends to the burn address
        govc = dict(burn(Accts=S(['a1', 'a2']), Amts=S([7]), Kinds=S(['bank.Send', 'bank.SendMod', 'vesting.Create']), VestEnds=S([4, 6]), GovAmts=S([5, 70]),
                         NextKinds=ALL_NEXT | S(['GovSchedule']), MaxDeliver=12, MaxHeight=10, FailKeep=3), SimSample=4, BlockKeep=2)
        return dict(mc=mcc, props=['P_C07'], invs=['I_C07'],
                    sims=[sim(simc, 80 if q else 1500, 40), sim(simc, 60 if q else 1000, 40, genesis=dict(mint=True)),
                          sim(govc, 40 if q else 800, 40, genesis=dict(gov=True)), sim(govc, 20 if q else 400, 40, genesis=dict(gov=True, mint=True)),
                          sim(simc, 40 if q else 800, 40, genesis=dict(unit2='1000000000000000000000000000000'))])
    if pid == 'C08':
        allk = AOL_KINDS | DID_KINDS | PN_KINDS
        mcc = mk(Accts=S(['a1', 'a2']), Topics=S(['t1']), ViewTopics=S(['t1']), RecVals=S(['v1']), Dids=S(['d1']), ViewDids=S(['d1']), Keys=S(['k1']), VmNames=S(['v1']),
                 DocNames=S(['A1']), DenomIds=S(['n1']), TokenIds=S(['i1']), DNames=S(['x']), ViewDenoms=S(['n1']), ViewTokens=S(['i1']), Kinds=allk,
                 MaxDeliver=3 if q else 8, MaxHeight=3, NextKinds=S(['BeginBlock', 'ExportImportBegin']))      # thorough: 94k states / 3.7M transitions
        simc = mk(Accts=S(['a1', 'a2', 'a3', 'a4']), Topics=S(['t1', 't2', 't3']), ViewTopics=S(['t1', 't2', 't3']), RecKeys=S(['k1', 'k2', '']), RecVals=S(['v1', 'v2', '']),
                  Descs=S(['x', '']), Mons=S(['m', '']),
                  Dids=S(['d1', 'd2']), ViewDids=S(['d1', 'd2']), Keys=S(['k1', 'k2']), VmNames=S(['v1', 'v2']), DocNames=S(['A1', 'A2', 'B12', 'C1', 'D2', 'R1']),
                  DenomIds=S(['n1', 'n2', 'n3']), TokenIds=S(['i1', 'i2', 'i3']), DNames=S(['x', 'y']), TDescs=S(['', 'q']), ViewDenoms=S(['n1', 'n2', 'n3']), ViewTokens=S(['i1', 'i2', 'i3']),
                  Kinds=allk, MaxDeliver=60, MaxHeight=8, NextKinds=S(['BeginBlock', 'ExportImportBegin']), FailKeep=40)
        # generator that believes '/' is fine in topic names (the genesis key separator); the judge keeps the published alphabet
        slash = aol(Accts=S(['a1', 'a2']), Topics=S(['t1', 'ts']), ViewTopics=S(['t1', 'ts']), MaxDeliver=12, MaxHeight=5, NextKinds=S(['BeginBlock', 'ExportImportBegin']),
                    FailKeep=30, Deviations=S(['slashtopics']))
        # every custom store holds 150 bulk entries (more than any default page size) besides what the behaviour adds
        bulk = mk(Accts=S(['a1', 'a2']), Topics=S(['t1', 'f000']), ViewTopics=S(['t1', 'f000']), RecVals=S(['v1']), Dids=S(['d1', 'd2']), ViewDids=S(['d1', 'd2']), DocNames=S(['A1', 'A2']),
                  Keys=S(['k1', 'k2']), VmNames=S(['v1']), DenomIds=S(['n1', 'f000']), TokenIds=S(['i1', 'g000']), DNames=S(['x']), ViewDenoms=S(['n1', 'f000']), ViewTokens=S(['i1', 'g000']),
                  Kinds=allk, MaxDeliver=12, MaxHeight=5, NextKinds=S(['BeginBlock', 'ExportImportBegin']), FailKeep=25)
        return dict(mc=mcc, props=['P_C08'], invs=['I_Genesis'],
                    sims=[sim(simc, 120 if q else 2500, 70), sim(slash, 30 if q else 400, 30), sim(bulk, 12 if q else 150, 30, genesis=dict(bulk=150))], mc_timeout=2400)
    raise KeyError(pid)


# --- hand-written corner behaviours (regression sentinels for the defects found while reading; they complement, never replace, TLC's) ---

def D(msgs, signers, fee=0, exec_='none'):
    return dict(name='Deliver', tx=dict(msgs=msgs, signers=signers, fee=fee, exec=exec_))


EB, BB, RB, XB = dict(name='EndBlock'), dict(name='BeginBlock'), dict(name='RestartBegin'), dict(name='ExportImportBegin')


def handwritten(pid):
    out = []
    if pid in ('C01', 'C08'):
        ct = dict(type='aol.CreateTopic', owner='a1', topic='t1', desc='x')
        aw = dict(type='aol.AddWriter', owner='a1', topic='t1', writer='a2', mon='m', desc='x')
        steps = [D([ct], ['a1']), D([aw], ['a1'])]
        for k, v in (('key-a', 'value-a'), ('key-b', 'value-b'), ('key-c', 'v'), ('', '')):
            steps.append(D([dict(type='aol.AddRecord', owner='a1', topic='t1', writer='a2', key=k, val=v, feePayer='none')], ['a2']))
        steps += [EB, XB, D([dict(type='aol.DeleteWriter', owner='a1', topic='t1', writer='a2')], ['a1']), EB, RB, EB, XB]
        out.append(dict(steps=steps))
    return out


def is_deliver(a):
    return a.get('name') == 'Deliver'


def has_type(a, prefix):
    return is_deliver(a) and any(m.get('type', '').startswith(prefix) for m in a['tx']['msgs'])


NONTRIVIAL = {
    'C01': (lambda a, r: (has_type(a, 'aol.AddRecord') and a.get('result') == 'ok') or (a.get('name') in ('RestartBegin', 'ExportImportBegin') and len(r['aol']['records']) > 0),
            'distinct observed steps that append a record, or restart/export-import a state holding records'),
    'C02': (lambda a, r: has_type(a, 'aol.'), 'distinct observed AOL transactions (accepted and rejected, any signer arrangement)'),
    'C13': (lambda a, r: has_type(a, 'aol.') and a.get('result') == 'ok', 'distinct observed accepted AOL transactions (each followed by all listings and counters)'),
    'C15': (lambda a, r: is_deliver(a) and (a['tx']['fee'] > 0 or a.get('result') != 'ok'), 'distinct observed custom transactions that pay a fee or fail'),
    'C03': (lambda a, r: has_type(a, 'did.'), 'distinct observed DID transactions'),
    'C04': (lambda a, r: has_type(a, 'did.') and a.get('result') == 'ok', 'distinct observed accepted DID transactions'),
    'C05': (lambda a, r: has_type(a, 'did.') and any(c['doc']['id'] == '' for c in r['did']['cells']), 'distinct observed DID transactions in states holding a tombstone'),
    'C11': (lambda a, r: has_type(a, 'did.') and any(m.get('doc', {}).get('id') != m.get('did') for m in a['tx']['msgs'] if 'doc' in m),
            'distinct observed create/update transactions whose document id differs from the DID field'),
    'C06': (lambda a, r: has_type(a, 'pnft.'), 'distinct observed PNFT transactions'),
    'C12': (lambda a, r: has_type(a, 'pnft.') and a.get('result') == 'ok', 'distinct observed accepted PNFT transactions'),
    'C07': (lambda a, r: a.get('name') == 'EndBlock' and (a.get('govDue', 0) > 0 or any(b['a'] == 'burn' and b['total'] > 0 for b in r['bank']['bal'])) or has_type(a, 'bank.') or has_type(a, 'vesting.'),
            'distinct observed deposits to the burn address and EndBlock steps (incl. EndBlocks in which a governance spend reaches the address)'),
    'C08': (lambda a, r: a.get('name') == 'ExportImportBegin', 'distinct observed export/import round trips (by resulting action record)'),
}
