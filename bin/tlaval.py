"""Parser for TLA+ values as printed by TLC (simulation files, dot dumps, error traces).

parse(text) -> python value:
  string -> str, integer -> int, TRUE/FALSE -> bool,
  << a, b >> -> list, { a, b } -> SetVal(list) (kept distinguishable from sequences),
  [ f |-> v, ... ] -> dict, ( k :> v @@ ... ) -> FnVal(list of (k, v)), model values -> ModelVal(name)
to_json(value): sets -> sorted lists, functions with string keys -> dicts, others -> list of [k, v].
"""
import json
import re


class SetVal(list):
    pass


class FnVal(list):
    pass


class ModelVal(str):
    pass


_tok = re.compile(r'''\s*(?:(<<)|(>>)|(\|->)|(:>)|(@@)|([\[\](){},])|("(?:[^"\\]|\\.)*")|(-?\d+)|([A-Za-z_][A-Za-z0-9_!]*))''')


def tokenize(text):
    pos = 0
    out = []
    n = len(text)
    while pos < n:
        m = _tok.match(text, pos)
        if not m:
            if text[pos:].strip() == '':
                break
            raise ValueError('bad TLA+ value near %r' % text[pos:pos + 40])
        pos = m.end()
        for i in range(1, 10):
            if m.group(i) is not None:
                out.append((i, m.group(i)))
                break
    return out


class _P:
    def __init__(self, toks):
        self.t = toks
        self.i = 0

    def peek(self):
        return self.t[self.i] if self.i < len(self.t) else (0, None)

    def next(self):
        tk = self.t[self.i]
        self.i += 1
        return tk

    def expect(self, s):
        k, v = self.next()
        if v != s:
            raise ValueError('expected %r got %r' % (s, v))

    def value(self):
        k, v = self.next()
        if k == 1:  # <<
            out = []
            if self.peek()[1] == '>>':
                self.next()
                return out
            while True:
                out.append(self.value())
                k2, v2 = self.next()
                if v2 == '>>':
                    return out
                if v2 != ',':
                    raise ValueError('bad sequence')
        if k == 6 and v == '{':
            out = SetVal()
            if self.peek()[1] == '}':
                self.next()
                return out
            while True:
                out.append(self.value())
                k2, v2 = self.next()
                if v2 == '}':
                    return out
                if v2 != ',':
                    raise ValueError('bad set')
        if k == 6 and v == '[':
            out = {}
            if self.peek()[1] == ']':
                self.next()
                return out
            while True:
                kk, name = self.next()
                self.expect('|->')
                out[name] = self.value()
                k2, v2 = self.next()
                if v2 == ']':
                    return out
                if v2 != ',':
                    raise ValueError('bad record')
        if k == 6 and v == '(':
            out = FnVal()
            while True:
                key = self.value()
                self.expect(':>')
                val = self.value()
                out.append((key, val))
                k2, v2 = self.next()
                if v2 == ')':
                    return out
                if v2 != '@@':
                    raise ValueError('bad function')
        if k == 7:
            return json.loads(v)
        if k == 8:
            return int(v)
        if k == 9:
            if v == 'TRUE':
                return True
            if v == 'FALSE':
                return False
            return ModelVal(v)
        raise ValueError('unexpected token %r' % v)


def parse(text):
    p = _P(tokenize(text))
    v = p.value()
    if p.i != len(p.t):
        raise ValueError('trailing tokens')
    return v


def to_json(v):
    if isinstance(v, SetVal):
        items = [to_json(x) for x in v]
        try:
            return sorted(items, key=lambda x: json.dumps(x, sort_keys=True))
        except TypeError:
            return items
    if isinstance(v, FnVal):
        if all(isinstance(k, str) for k, _ in v):
            return {k: to_json(x) for k, x in v}
        return [[to_json(k), to_json(x)] for k, x in v]
    if isinstance(v, dict):
        return {k: to_json(x) for k, x in v.items()}
    if isinstance(v, list):
        return [to_json(x) for x in v]
    return v


_state_re = re.compile(r'^/\\ (\w+) = ', re.M)


def parse_state(block, only=None):
    """block: the text of one state ('/\\ var = value' conjuncts). Returns {var: value}."""
    out = {}
    ms = list(_state_re.finditer(block))
    for j, m in enumerate(ms):
        name = m.group(1)
        end = ms[j + 1].start() if j + 1 < len(ms) else len(block)
        if only is not None and name not in only:
            continue
        out[name] = parse(block[m.end():end])
    return out


def parse_sim_file(path, only=('act',)):
    """A TLC -simulate file: returns the list of states (dicts) in order."""
    text = open(path).read()
    parts = re.split(r'^STATE_\d+ ==\s*$', text, flags=re.M)
    states = []
    for blk in parts[1:]:
        blk = re.split(r'^\\\* <', blk, flags=re.M)[0]
        blk = blk.split('=====')[0]
        states.append(parse_state(blk, only))
    return states


if __name__ == '__main__':
    import sys
    for st in parse_sim_file(sys.argv[1]):
        print(json.dumps(to_json(st)))
