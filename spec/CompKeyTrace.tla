---------------------------- MODULE CompKeyTrace ----------------------------
(***************************************************************************)
(* Binds CompKey.tla to types/compkey: every observation the harness made  *)
(* on the real codec must equal what the specification's functions give    *)
(* for the same input (here with MaxLen = 255, on inputs of real size).    *)
(* Since TLC has checked losslessness, injectivity and prefix-exactness of *)
(* the specification's functions exhaustively on the scaled domain, and    *)
(* the real functions agree with them on the image of that domain and on   *)
(* the real-size boundaries, a change of the real codec that breaks one of *)
(* the properties shows up as a disagreement here.                         *)
(*                                                                         *)
(* Typed keys (x/aol): a structurally valid byte string is accepted iff    *)
(* the component count is right, address components are 1..255 bytes and a *)
(* record offset is exactly 8 bytes; accepted keys re-encode to the input. *)
(* String form: every topic name the message validator admits round-trips  *)
(* through the '/'-separated genesis form of the topic/writer/record keys. *)
(***************************************************************************)
EXTENDS CompKey, Json, IOUtils, TLCExt

VARIABLES l
tvars == <<vars, l>>

Log == ndJsonDeserialize(IOEnv.TRACE_FILE)

Report(kind, id, what) == PrintT(<<kind, id, what, l, l>>)
Chk(id, what, cond) == IF cond THEN TRUE ELSE Report("VIOLATION", id, what)

TypedOk(type, cs) ==
    LET addr(c) == Len(c) >= 1 /\ Len(c) <= 255 IN
    CASE type = "owner"  -> Len(cs) = 1 /\ addr(cs[1])
      [] type = "topic"  -> Len(cs) = 2 /\ addr(cs[1])
      [] type = "writer" -> Len(cs) = 3 /\ addr(cs[1]) /\ addr(cs[3])
      [] OTHER           -> Len(cs) = 3 /\ addr(cs[1]) /\ Len(cs[3]) = 8

Check(rec) ==
    /\ Chk("C17", "panic", ~rec.panic)
    /\ rec.panic \/
       CASE rec.k = "enc" ->
              LET e == Encode(rec.t) IN
              /\ Chk("C18", "encode", rec.ok = e.ok /\ (e.ok => rec.bz = e.bz))
              /\ Chk("C18", "roundtrip", e.ok => (rec.dec.ok /\ rec.dec.t = rec.t))
              /\ Chk("C18", "partial", \A i \in DOMAIN rec.partial :
                        LET p == rec.partial[i]
                            m == PartialEncode(rec.t, p.n) IN p.ok = m.ok /\ (m.ok => p.bz = m.bz))
         [] rec.k = "dec" ->
              LET d == Decode(rec.s) IN
              Chk("C18", "decode", rec.ok = d.ok /\ (d.ok => rec.t = d.t))
         [] rec.k = "typed" ->
              LET d == Decode(rec.s) IN
              /\ Chk("C18", "typed-accept", (rec.result = "ok") <=> (d.ok /\ TypedOk(rec.type, d.t)))
              /\ Chk("C18", "typed-lossless", rec.result = "ok" => rec.reenc = rec.s)
         [] rec.k = "str" ->
              /\ Chk("C18", "string-form", rec.admitted => rec.rt = "ok")
              /\ Chk("C18", "separator-admitted", rec.admitted => \A i \in DOMAIN rec.name : rec.name[i] # 47)
         [] OTHER -> TRUE

TraceInit == l = 1 /\ t = <<>> /\ u = <<>> /\ phase = 9
TraceNext == l <= Len(Log) /\ l' = l + 1 /\ UNCHANGED vars /\ Check(Log[l])
TraceSpec == TraceInit /\ [][TraceNext]_tvars
TraceAccepted == TLCGet("stats").diameter = Len(Log) + 1
=============================================================================
