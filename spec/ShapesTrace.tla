---------------------------- MODULE ShapesTrace ----------------------------
(***************************************************************************)
(* Binds Shapes.tla to the real stateless validation, signer extraction,   *)
(* DeliverTx pipeline, query handlers and key-store loader.  For every     *)
(* executed case the verdict of the specification's oracle is COMPUTED     *)
(* HERE from the logged shape labels (never taken from the harness):       *)
(*  C16: oracle "accept" => the real ValidateBasic accepts; oracle         *)
(*       "reject" => it rejects; a rejected message never gets past the    *)
(*       stateless stage of DeliverTx (also inside authz.MsgExec) and      *)
(*       changes nothing; nothing outside the limits is found stored.      *)
(*  C17: no step of any case panics (ValidateBasic, GetSigners after a     *)
(*       successful validation, handler, query, key-store load, EndBlock). *)
(***************************************************************************)
EXTENDS Shapes, Json, IOUtils, TLCExt

VARIABLES l
tvars == <<vars, l>>

Log == ndJsonDeserialize(IOEnv.TRACE_FILE)

Report(kind, id, rec) == PrintT(<<kind, id, IF "c" \in DOMAIN rec THEN rec.c.type ELSE rec.k, rec.i, l>>)
Chk(id, cond, rec) == IF cond THEN TRUE ELSE Report("VIOLATION", id, rec)

Check(rec) ==
    /\ Chk("C17", ~rec.panic, rec)
    /\ CASE rec.k = "msg" ->
              IF rec.enc # "ok" THEN TRUE
              ELSE LET v == Verdict(rec.c) IN
                   /\ Chk("C16", v = "accept" => rec.vb = "accept", rec)
                   /\ Chk("C16", v = "reject" => rec.vb = "reject", rec)
                   \* stateless validation is what gates storage: a rejected message is stopped before any handler and stores nothing
                   /\ Chk("C16", (rec.vb = "reject" /\ rec.deliver \notin {"skipped", "unbuildable"}) => (rec.deliver = "ante" /\ ~rec.stateChanged), rec)
                   /\ Chk("C16", (v = "reject" /\ rec.deliver \notin {"skipped", "unbuildable"}) => ~rec.stateChanged, rec)
                   \* ... and an accepted one is never turned away by a stateless check later in the pipeline
                   /\ Chk("C16", (v = "accept" /\ rec.vb = "accept" /\ rec.deliver \notin {"skipped", "unbuildable"}) => ~rec.stateless, rec)
                   /\ Chk("C17", rec.vb # "panic" /\ rec.signers # "panic", rec)
         [] rec.k = "scan" -> Chk("C16", rec.bad = <<>>, rec)
         [] OTHER -> TRUE

TraceInit == l = 1 /\ ty = "" /\ c = [type |-> "trace"]
TraceNext == l <= Len(Log) /\ l' = l + 1 /\ UNCHANGED vars /\ Check(Log[l])
TraceSpec == TraceInit /\ [][TraceNext]_tvars
TraceAccepted == TLCGet("stats").diameter = Len(Log) + 1
=============================================================================
