------------------------------ MODULE Replicas ------------------------------
(***************************************************************************)
(* C09: one replica consuming a fixed block history while it is also       *)
(* asked to check, simulate and answer queries ("noise"), and is cleanly   *)
(* restarted between blocks.  Noise runs on side branches of the state     *)
(* (CheckTx / Simulate) or reads it (Query): in the specification it       *)
(* leaves the replicated state untouched BY CONSTRUCTION - the statement   *)
(* of the property.  TLC's job is to enumerate every schedule of noise     *)
(* (which, where, how often); the deciding step is the binding: two        *)
(* replicas with different schedules - one of them in another OS process   *)
(* with GOMAXPROCS=1, started later - execute the same blocks on the real  *)
(* application and ReplicasTrace.tla compares what they compute at every   *)
(* height.                                                                 *)
(***************************************************************************)
EXTENDS Integers, Sequences, FiniteSets, TLC

CONSTANTS
    BlockShapes,   \* set of block histories (sequences of block sizes)
    NoiseTxs,      \* number of distinct noise transactions available
    MaxNoise       \* bound on the number of noise actions in a schedule

VARIABLES
    Blocks, h, phase, k,
    done, pend,      \* replicated state (committed / in the deliver branch): sequences of <<height, index>>
    noise,           \* number of noise actions taken
    sched            \* history: the schedule so far

vars == <<Blocks, h, phase, k, done, pend, noise, sched>>

RECURSIVE Twin(_)
Twin(n) == IF n = 0 THEN <<>> ELSE Twin(n - 1) \o [i \in 1..Blocks[n] |-> <<n, i>>]

Init ==
    /\ Blocks \in BlockShapes
    /\ h = 0 /\ phase = "idle" /\ k = 0 /\ done = <<>> /\ pend = <<>> /\ noise = 0 /\ sched = <<>>

Step(e) == sched' = Append(sched, e) /\ UNCHANGED Blocks

Begin   == phase = "idle" /\ h < Len(Blocks) /\ phase' = "begun" /\ k' = 0 /\ pend' = <<>> /\ Step(<<"Begin">>) /\ UNCHANGED <<h, done, noise>>
Deliver == phase = "begun" /\ k < Blocks[h + 1] /\ k' = k + 1 /\ pend' = Append(pend, <<h + 1, k + 1>>) /\ Step(<<"Deliver">>) /\ UNCHANGED <<h, phase, done, noise>>
End     == phase = "begun" /\ k = Blocks[h + 1] /\ phase' = "ended" /\ Step(<<"End">>) /\ UNCHANGED <<h, k, done, pend, noise>>
Commit  == phase = "ended" /\ h' = h + 1 /\ done' = done \o pend /\ pend' = <<>> /\ phase' = "idle" /\ k' = 0 /\ Step(<<"Commit">>) /\ UNCHANGED noise

\* noise: no effect on the replicated state
Noise(kind, j) ==
    /\ noise < MaxNoise
    /\ noise' = noise + 1
    /\ Step(<<kind, j>>)
    /\ UNCHANGED <<h, phase, k, done, pend>>

Check(j)    == Noise("Check", j)
Recheck(j)  == Noise("Recheck", j)
Simulate(j) == Noise("Simulate", j)
Query       == Noise("Query", 0)
\* a clean restart (stop after Commit, start again on the same database) is noise as well
Restart     == phase = "idle" /\ Noise("Restart", 0)

Next == Begin \/ Deliver \/ End \/ Commit \/ Query \/ Restart
        \/ \E j \in 1..NoiseTxs : Check(j) \/ Recheck(j) \/ Simulate(j)

Spec == Init /\ [][Next]_vars

\* whatever noise a replica has seen, what it has committed is what every other replica has committed at that height
Agreement == done = Twin(h)

Finished == h = Len(Blocks) /\ phase = "idle"
ScheduleDump == ~Finished \/ PrintT(<<"SCHEDULE", Blocks, sched>>)
=============================================================================
