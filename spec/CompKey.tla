------------------------------ MODULE CompKey ------------------------------
(***************************************************************************)
(* C18: the composite-key codec of types/compkey.                          *)
(*   Encode(<<c1..cn>>) = <<Len(c1)>> \o c1 \o ... \o <<Len(cn)>> \o cn    *)
(* with one-byte lengths: components longer than MaxLen are rejected.      *)
(*                                                                         *)
(* The functions are written for ARBITRARY byte values and lengths (bytes  *)
(* are naturals, MaxLen is a constant), so the same module serves          *)
(*  - exhaustive checking over a scaled domain (MaxLen = 2 standing for    *)
(*    255, a byte alphabet that CONTAINS the small length values so that   *)
(*    content can impersonate a length byte), and                          *)
(*  - as the oracle of CompKeyTrace.tla, where MaxLen = 255 and the inputs *)
(*    are the ones the harness fed to the real codec.                      *)
(***************************************************************************)
EXTENDS Integers, Sequences, FiniteSets, TLC

CONSTANTS MaxLen,      \* longest legal component (255 in the code)
          Bytes,       \* byte alphabet of the exhaustive domain
          MaxComps,    \* most components of a tuple in the exhaustive domain
          MaxStr       \* longest byte string offered to the decoder in the exhaustive domain

Err == [ok |-> FALSE, t |-> <<>>]
Ok(t) == [ok |-> TRUE, t |-> t]

RECURSIVE Flat(_)
Flat(t) == IF t = <<>> THEN <<>> ELSE <<Len(Head(t))>> \o Head(t) \o Flat(Tail(t))

Legal(t) == \A i \in DOMAIN t : Len(t[i]) <= MaxLen

\* Encode: error when a component does not fit the one-byte length
Encode(t) == IF Legal(t) THEN [ok |-> TRUE, bz |-> Flat(t)] ELSE [ok |-> FALSE, bz |-> <<>>]

PartialEncode(t, n) == IF n > Len(t) THEN [ok |-> FALSE, bz |-> <<>>] ELSE Encode(SubSeq(t, 1, n))

\* Decode: walks the declared lengths; a declared length running past the end is an error
RECURSIVE Dec(_, _)
Dec(bz, acc) ==
    IF bz = <<>> THEN Ok(acc)
    ELSE LET n == Head(bz) IN
         IF n > Len(bz) - 1 THEN Err
         ELSE Dec(SubSeq(bz, n + 2, Len(bz)), Append(acc, SubSeq(bz, 2, n + 1)))
Decode(bz) == Dec(bz, <<>>)

IsPrefix(a, b) == Len(a) <= Len(b) /\ SubSeq(b, 1, Len(a)) = a

\* string form: components joined by a separator; splitting at the separator
RECURSIVE Join(_, _)
Join(t, sep) == IF t = <<>> THEN <<>> ELSE IF Len(t) = 1 THEN t[1] ELSE t[1] \o <<sep>> \o Join(Tail(t), sep)

RECURSIVE SplitAcc(_, _, _, _)
SplitAcc(s, sep, cur, acc) ==
    IF s = <<>> THEN Append(acc, cur)
    ELSE IF Head(s) = sep THEN SplitAcc(Tail(s), sep, <<>>, Append(acc, cur))
    ELSE SplitAcc(Tail(s), sep, Append(cur, Head(s)), acc)
Split(s, sep) == SplitAcc(s, sep, <<>>, <<>>)

-----------------------------------------------------------------------------
(* exhaustive domain *)

Comps   == UNION {[1..n -> Bytes] : n \in 0..MaxLen}
TooLong == [1..(MaxLen + 1) -> Bytes]
Tuples  == UNION {[1..n -> Comps] : n \in 0..MaxComps}
Strings == UNION {[1..n -> Bytes] : n \in 0..MaxStr}

VARIABLES t, u, phase
vars == <<t, u, phase>>

Init == t \in Tuples /\ u = <<>> /\ phase = 0
Next == phase = 0 /\ u' \in Tuples /\ phase' = 1 /\ t' = t
Spec == Init /\ [][Next]_vars

\* lossless
RoundTrip == phase = 0 => Decode(Encode(t).bz) = Ok(t)

\* collision-free
Injective == phase = 1 => (Encode(t).bz = Encode(u).bz => t = u)

\* prefix-exact: the encoding of the first k components of t is a byte-prefix of u's encoding exactly when u starts with the same k components
PrefixExact ==
    phase = 1 =>
        \A kk \in 0..Len(t) :
            IsPrefix(PartialEncode(t, kk).bz, Encode(u).bz) <=> (Len(u) >= kk /\ SubSeq(u, 1, kk) = SubSeq(t, 1, kk))

\* components that do not fit are rejected, never truncated (checked on the first tuple only, with one component replaced)
RejectsTooLong ==
    phase = 0 => \A i \in DOMAIN t : \A big \in TooLong : ~Encode([t EXCEPT ![i] = big]).ok

\* the decoder is total on all byte strings: an error or a tuple that re-encodes to exactly the input (no trailing garbage, no silent repair)
DecodeTotal ==
    (phase = 0 /\ t = <<>>) =>
        \A s \in Strings : LET d == Decode(s) IN d.ok => (Legal(d.t) /\ Encode(d.t).bz = s)

\* the string form round-trips exactly for tuples none of whose components contains the separator (and has at least one component)
StringForm ==
    phase = 0 =>
        \A sep \in Bytes :
            (Len(t) > 0 /\ \A i \in DOMAIN t : \A j \in DOMAIN t[i] : t[i][j] # sep) => Split(Join(t, sep), sep) = t

\* every tuple of the domain is printed once with its encoding: the harness feeds them to the real codec
CaseDump == phase # 0 \/ PrintT(<<"CASE", t, Encode(t).bz>>)
=============================================================================
