--------------------------- MODULE ReplicasTrace ---------------------------
(***************************************************************************)
(* Trace specification for C09.  A log holds the events of replica A       *)
(* followed by the events of replica B for the same block history.  Every  *)
(* event must be the Replicas action of that name; at every Commit the     *)
(* facts computed by the real application (application hash, the result    *)
(* code/data/gas/events of every transaction, EndBlock events, a digest of *)
(* every custom query answer) are recorded for A and compared for B.       *)
(***************************************************************************)
EXTENDS Replicas, Json, IOUtils, TLCExt

VARIABLES l, run, rep, facts, step

tvars == <<vars, l, run, rep, facts, step>>

Log == ndJsonDeserialize(IOEnv.TRACE_FILE)

Report(kind, id) == PrintT(<<kind, id, run', step', l>>)
Chk(id, cond)   == IF cond THEN TRUE ELSE Report("VIOLATION", id)

Act(rec) ==
    CASE rec.name = "Begin"   -> Begin
      [] rec.name = "Deliver" -> Deliver
      [] rec.name = "End"     -> End
      [] rec.name = "Commit"  -> Commit
      [] rec.name = "Query"   -> Query
      [] rec.name = "Restart" -> Restart
      [] rec.name = "Check"    -> Check(rec.j)
      [] rec.name = "Recheck"  -> Recheck(rec.j)
      [] rec.name = "Simulate" -> Simulate(rec.j)
      [] OTHER -> FALSE

TraceInit ==
    /\ l = 1 /\ run = "" /\ rep = "" /\ facts = <<>> /\ step = 0
    /\ Blocks = <<>> /\ h = 0 /\ phase = "idle" /\ k = 0 /\ done = <<>> /\ pend = <<>> /\ noise = 0 /\ sched = <<>>

\* a replica starts (ev = "start"): the model is reset; the facts of replica A are kept while B runs
Start(rec) ==
    /\ Blocks' = rec.blocks /\ h' = 0 /\ phase' = "idle" /\ k' = 0 /\ done' = <<>> /\ pend' = <<>> /\ noise' = 0 /\ sched' = <<>>
    /\ run' = rec.run /\ rep' = rec.rep /\ step' = 0
    /\ facts' = IF rec.rep = "A" THEN <<>> ELSE facts

NoPreAnteGas(f) ==
    [f EXCEPT !.res = [i \in DOMAIN f.res |-> IF f.res[i].gasWanted = 0 /\ f.res[i].code # 0 THEN [f.res[i] EXCEPT !.gasUsed = 0] ELSE f.res[i]]]

Event(rec) ==
    /\ run' = run /\ rep' = rep /\ step' = rec.i
    /\ IF ENABLED Act(rec) THEN Act(rec) ELSE Report("DRIFT", "not-enabled:" \o rec.name) /\ UNCHANGED vars
    /\ Chk("C17", ~rec.panic)
    /\ IF rec.name = "Commit"
       THEN IF rep = "A"
            THEN facts' = Append(facts, rec.facts)
            ELSE /\ facts' = facts
                 \* same application hash, same per-transaction results, same EndBlock events, same query answers at every height
                 /\ IF h' <= Len(facts) /\ rec.facts = facts[h'] THEN TRUE
                    \* equal except for the gas REPORTED for transactions rejected before the ante handler installed its meter (gasWanted = 0):
                    \* the recorded cosmos-sdk finding "preante-gas" (DESIGN.md 0.3) - one replica was restarted, the other was not
                    ELSE IF h' <= Len(facts) /\ NoPreAnteGas(rec.facts) = NoPreAnteGas(facts[h'])
                         THEN Report("VIOLATION", "C09:preante-gas")
                         ELSE Report("VIOLATION", "C09")
       ELSE facts' = facts

TraceNext ==
    /\ l <= Len(Log)
    /\ l' = l + 1
    /\ LET rec == Log[l] IN IF rec.ev = "start" THEN Start(rec) ELSE Event(rec)

TraceSpec == TraceInit /\ [][TraceNext]_tvars

TraceAccepted == TLCGet("stats").diameter = Len(Log) + 1
=============================================================================
