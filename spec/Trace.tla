-------------------------------- MODULE Trace --------------------------------
(***************************************************************************)
(* Trace specification: binds Panacea.tla / Props.tla to the real code.    *)
(*                                                                         *)
(* The harness drives the real application and writes one ndjson record    *)
(* per step: the action with its real result, the projection of the real   *)
(* stores onto the specification's variables, and the real query answers.  *)
(* Here TLC walks the log: the next state is TAKEN FROM THE LOG (observed, *)
(* not predicted), and on every step                                       *)
(*   (1) every property formula of Props.tla is evaluated on the observed  *)
(*       transition / state / view  -> "VIOLATION" lines (the verdict);    *)
(*   (2) the step is checked to be a step of Panacea's next-state relation *)
(*       for the logged action (conformance) -> "DRIFT" lines.             *)
(* Many traces are concatenated; a record with ev = "init" starts a new    *)
(* one.  Failures are reported with PrintT instead of TLC's own property   *)
(* violation so that ONE pass reports every failing step of every trace    *)
(* without printing the (very long) prefix; acceptance of the whole log is *)
(* the POSTCONDITION.                                                      *)
(***************************************************************************)
EXTENDS Props, Json, IOUtils, TLCExt

VARIABLES l, view, obs, accSnap,
          touring,   \* TRUE between a tour's `mark` and the end of the trace: every Deliver starts from the marked state
          base       \* tour: first observed outcome of each transaction fired at the marked state

tvars == <<allvars, l, view, obs, accSnap, touring, base>>

Log == ndJsonDeserialize(IOEnv.TRACE_FILE)

R(seq) == {seq[i] : i \in DOMAIN seq}

-----------------------------------------------------------------------------
(* JSON -> specification values *)

NDoc(j) == [id |-> j.id, vms |-> R(j.vms), auth |-> R(j.auth), asrt |-> R(j.asrt), ex |-> j.ex]

NMsg(m) ==
    IF m.type \in {"did.Create", "did.Update"}
    THEN [type |-> m.type, did |-> m.did, doc |-> NDoc(m.doc), vm |-> m.vm, vmDid |-> m.vmDid,
          proof |-> [key |-> m.proof.key, data |-> NDoc(m.proof.data), seq |-> m.proof.seq], from |-> m.from]
    ELSE IF m.type = "did.Deactivate"
    THEN [type |-> m.type, did |-> m.did, vm |-> m.vm, vmDid |-> m.vmDid,
          proof |-> [key |-> m.proof.key, data |-> NDoc(m.proof.data), seq |-> m.proof.seq], from |-> m.from]
    ELSE m

NTx(t) == [msgs |-> [i \in DOMAIN t.msgs |-> NMsg(t.msgs[i])], signers |-> R(t.signers), fee |-> t.fee, exec |-> t.exec,
           fee2 |-> IF "fee2" \in DOMAIN t THEN t.fee2 ELSE 0, tip |-> IF "tip" \in DOMAIN t THEN t.tip ELSE "none"]

NAct(a) ==
    CASE a.name = "Deliver" -> [name |-> "Deliver", tx |-> NTx(a.tx), result |-> a.result, failIdx |-> a.failIdx, code |-> a.code, offs |-> a.offs]
      [] a.name = "Redeliver" -> [name |-> "Redeliver", k |-> a.k, tx |-> NTx(a.tx), result |-> a.result, failIdx |-> a.failIdx, code |-> a.code, offs |-> a.offs]
      [] a.name = "EndBlock" -> [name |-> "EndBlock", halted |-> a.halted, invOk |-> a.invOk]
      [] a.name = "GovSchedule" -> [name |-> "GovSchedule", amt |-> a.amt, ok |-> a.ok]
      [] a.name = "Noise" -> [name |-> "Noise", kind |-> a.kind, tx |-> NTx(a.tx)]
      [] a.name = "BeginBlock" -> [name |-> "BeginBlock", minted |-> a.minted]
      [] a.name = "RestartBegin" -> [name |-> "RestartBegin", minted |-> a.minted, sameHash |-> a.sameHash]
      [] a.name = "ExportImportBegin" -> [name |-> "ExportImportBegin", minted |-> a.minted, exportOk |-> a.exportOk, exportTwiceEqual |-> a.exportTwiceEqual,
                                          validateOk |-> a.validateOk, importOk |-> a.importOk, viewsEqual |-> a.viewsEqual, reExportEqual |-> a.reExportEqual]
      [] OTHER -> [name |-> a.name]

Pick(S, P(_)) == CHOOSE x \in S : P(x)

ToOwners(js)  == [o \in {e.o : e \in R(js)} |-> (CHOOSE e \in R(js) : e.o = o).n]
ToTopics(js)  == [k \in {<<e.o, e.t>> : e \in R(js)} |->
                    LET e == CHOOSE x \in R(js) : <<x.o, x.t>> = k IN [desc |-> e.desc, nw |-> e.nw, nr |-> e.nr]]
ToWriters(js) == [k \in {<<e.o, e.t, e.w>> : e \in R(js)} |->
                    LET e == CHOOSE x \in R(js) : <<x.o, x.t, x.w>> = k IN [mon |-> e.mon, desc |-> e.desc, ts |-> e.ts]]
ToRecords(js) == [k \in {<<e.o, e.t, e.n>> : e \in R(js)} |->
                    LET e == CHOOSE x \in R(js) : <<x.o, x.t, x.n>> = k IN [key |-> e.key, val |-> e.val, w |-> e.w, ts |-> e.ts]]
ToDidReg(js)  == [d \in {e.d : e \in R(js)} |-> LET e == CHOOSE x \in R(js) : x.d = d IN [doc |-> NDoc(e.doc), seq |-> e.seq]]
ToDenoms(js)  == [i \in {e.id : e \in R(js)} |->
                    LET e == CHOOSE x \in R(js) : x.id = i IN
                    [owner |-> e.owner, name |-> e.name, symbol |-> e.symbol, desc |-> e.desc, uri |-> e.uri, hash |-> e.hash, data |-> e.data]]
OwnerOf(js, k) == LET os == {e \in R(js) : <<e.denom, e.id>> = k} IN IF os = {} THEN "?" ELSE (CHOOSE e \in os : TRUE).owner
ToTokens(ts, os) == [k \in {<<e.denom, e.id>> : e \in R(ts)} |->
                    LET e == CHOOSE x \in R(ts) : <<x.denom, x.id>> = k IN
                    [name |-> e.name, desc |-> e.desc, uri |-> e.uri, hash |-> e.hash, data |-> e.data, creator |-> e.creator, at |-> e.at, owner |-> OwnerOf(os, k)]]
ToIndex(js)   == {<<e.owner, e.denom, e.id>> : e \in R(js)}
ToSupply(js)  == [d \in {e.denom : e \in R(js)} |-> (CHOOSE e \in R(js) : e.denom = d).n]
BalOf(js, a, d) == LET es == {e \in R(js) : e.a = a /\ e.d = d} IN IF es = {} THEN -1 ELSE (CHOOSE e \in es : TRUE).total
ToBal(js)     == [a \in Tracked |-> [d \in Denoms |-> BalOf(js, a, d)]]
SupOf(js, d)  == LET es == {e \in R(js) : e.d = d} IN IF es = {} THEN [supply |-> -1, rest |-> -1] ELSE CHOOSE e \in es : TRUE
ToGrants(js)  == {<<e.granter, e.grantee, e.msgType>> : e \in R(js)}

NView(v) ==
    [ aolRecord  |-> R(v.aol.record),
      aolTopic   |-> R(v.aol.topic),
      aolWriter  |-> R(v.aol.writer),
      aolTopics  |-> {[o |-> e.o, lists |-> R(e.lists), totals |-> R(e.totals), errs |-> R(e.errs)] : e \in R(v.aol.topics)},
      aolWriters |-> {[o |-> e.o, t |-> e.t, lists |-> R(e.lists), totals |-> R(e.totals), errs |-> R(e.errs)] : e \in R(v.aol.writers)},
      did        |-> {[d |-> e.d, st |-> e.st, msg |-> e.msg, doc |-> NDoc(e.doc), seq |-> e.seq, named |-> e.named] : e \in R(v.did)},
      pnToken    |-> {[qd |-> e.qd, qi |-> e.qi, tok |-> [denom |-> e.denom, id |-> e.id, name |-> e.name, desc |-> e.desc, uri |-> e.uri, hash |-> e.hash,
                                                       data |-> e.data, creator |-> e.creator, owner |-> e.owner, at |-> e.at]] : e \in R(v.pnft.token)},
      pnTokens   |-> {[q |-> e.q, items |-> e.items] : e \in R(v.pnft.tokens)},
      pnByOwner  |-> {[q |-> e.q, o |-> e.o, items |-> e.items] : e \in R(v.pnft.byOwner)},
      pnDenomsByOwner |-> {[o |-> e.o, ids |-> e.ids] : e \in R(v.pnft.denomsByOwner)},
      pnDenom    |-> {[q |-> e.q, id |-> e.id, den |-> [owner |-> e.owner, name |-> e.name, symbol |-> e.symbol, desc |-> e.desc, uri |-> e.uri,
                                                       hash |-> e.hash, data |-> e.data]] : e \in R(v.pnft.denom)},
      pnDenomLists |-> R(v.pnft.denoms.lists) ]

\* observation-only facts of a record
NObs(rec) ==
    [ run |-> rec.run, i |-> rec.i, ev |-> rec.ev,
      panic |-> IF "panic" \in DOMAIN rec.act THEN rec.act.panic ELSE FALSE,
      junk  |-> Len(rec.aol.junk) + Len(rec.did.junk) + Len(rec.pnft.junk) + Len(rec.bank.junk),
      spend |-> {[a |-> e.a, d |-> e.d, n |-> e.spendable] : e \in R(rec.bank.bal)},
      listErrs |-> R(rec.views.pnft.denoms.errs),
      fillers |-> rec.did.fillers ]         \* bulk registry entries (outside the alphabet) that are still exactly what genesis put there

Observe(rec) ==
    /\ height' = rec.h
    /\ phase' = rec.phase
    /\ aolOwners' = ToOwners(rec.aol.owners)
    /\ aolTopics' = ToTopics(rec.aol.topics)
    /\ aolWriters' = ToWriters(rec.aol.writers)
    /\ aolRecords' = ToRecords(rec.aol.records)
    /\ didReg' = ToDidReg(rec.did.cells)
    /\ pnDenoms' = ToDenoms(rec.pnft.denoms)
    /\ pnTokens' = ToTokens(rec.pnft.tokens, rec.pnft.owners)
    /\ pnIndex' = ToIndex(rec.pnft.index)
    /\ pnSupply' = ToSupply(rec.pnft.supply)
    /\ bal' = ToBal(rec.bank.bal)
    /\ vest' = R(rec.bank.vest)
    /\ exists' = R(rec.bank.exists)
    /\ supply' = [d \in Denoms |-> SupOf(rec.bank.sup, d).supply]
    /\ rest' = [d \in Denoms |-> SupOf(rec.bank.sup, d).rest]
    /\ pending' = {[at |-> e.at, amt |-> e.amt] : e \in R(rec.bank.pending)}
    /\ grants' = ToGrants(rec.grants)
    /\ act' = NAct(rec.act)
    /\ view' = NView(rec.views)
    /\ obs' = NObs(rec)

-----------------------------------------------------------------------------
(* verdicts and conformance *)

Report(kind, id) == PrintT(<<kind, id, obs'.run, obs'.i, l>>)

Chk(id, cond)   == IF cond THEN TRUE ELSE Report("VIOLATION", id)
Drift(id, cond) == IF cond THEN TRUE ELSE Report("DRIFT", id)

StepProps ==
    /\ Chk("C01", C01_Step)
    /\ Chk("C02", C02_Step)
    /\ Chk("C03", C03_Step)
    /\ Chk("C04", C04_Step)
    /\ Chk("C05", C05_Step)
    /\ Chk("C06", C06_Step)
    /\ Chk("C07", C07_Step)
    /\ Chk("C08", C08_Step)
    /\ Chk("C10", C10_Step)
    /\ Chk("C12", C12_Step)
    /\ Chk("C15", C15_Step)

StateProps ==
    /\ Chk("C01", C01_Dense')
    /\ Chk("C01", C01_Acked(view)')
    /\ Chk("C04", C04_View(view)')
    /\ Chk("C05", C05_View(view)')
    /\ Chk("C07", C07_Inv' /\ C07_Ended')
    /\ Chk("C11", C11_Inv' /\ C11_View(view)')
    /\ Chk("C12", C12_Inv' /\ C12_View(view)')
    /\ Chk("C13", C13_Inv' /\ C13_View(view)')
    /\ Chk("C17", ~obs'.panic)

\* Is the observed step a step of the specification for the logged action?
Dispatch ==
    CASE act'.name = "Deliver"           -> Deliver(act'.tx)
      [] act'.name = "Redeliver"         -> act'.k \in DOMAIN delivered /\ delivered[act'.k].tx = act'.tx /\ Redeliver(delivered[act'.k], act'.k)
      [] act'.name = "EndBlock"          -> EndBlock
      [] act'.name = "GovSchedule"       -> GovSchedule(act'.amt)
      [] act'.name = "Noise"             -> Noise(act'.kind, act'.tx)
      [] act'.name = "BeginBlock"        -> BeginBlock(act'.minted)
      [] act'.name = "RestartBegin"      -> RestartBegin(act'.minted)
      [] act'.name = "ExportImportBegin" -> ExportImportBegin(act'.minted)
      [] OTHER -> FALSE

\* which part of a Deliver step deviates (printed once per drifting step, for diagnosis)
DeliverDiff ==
    LET o == Outcome(act'.tx) IN
    <<"pred", o.result, o.failIdx, o.code, o.offs, "obs", act'.result, act'.failIdx, act'.code, act'.offs,
      "diff", {n \in {"ao", "at", "aw", "ar", "dr", "pd", "pt", "pi", "ps", "bal", "vest", "exists", "grants"} :
                 CASE n = "ao" -> aolOwners' # o.s.ao [] n = "at" -> aolTopics' # o.s.at [] n = "aw" -> aolWriters' # o.s.aw
                   [] n = "ar" -> aolRecords' # o.s.ar [] n = "dr" -> didReg' # o.s.dr [] n = "pd" -> pnDenoms' # o.s.pd
                   [] n = "pt" -> pnTokens' # o.s.pt [] n = "pi" -> pnIndex' # o.s.pi [] n = "ps" -> pnSupply' # o.s.ps
                   [] n = "bal" -> bal' # o.s.bal [] n = "vest" -> vest' # o.s.vest [] n = "exists" -> exists' # o.s.exists
                   [] n = "grants" -> grants' # o.s.grants}>>

\* the real exported genesis, as parsed by the harness (genproject.go), in the shape of Genesis!Gen
LogGen(j) ==
    [aolOwners  |-> MapOf({[k |-> e.k, v |-> e.n] : e \in R(j.aol.owners)}),
     aolTopics  |-> MapOf({[k |-> e.k, v |-> [desc |-> e.desc, nw |-> e.nw, nr |-> e.nr]] : e \in R(j.aol.topics)}),
     aolWriters |-> MapOf({[k |-> e.k, v |-> [mon |-> e.mon, desc |-> e.desc, ts |-> e.ts]] : e \in R(j.aol.writers)}),
     aolRecords |-> MapOf({[k |-> e.k, v |-> [key |-> e.key, val |-> e.val, w |-> e.w, ts |-> e.ts]] : e \in R(j.aol.records)}),
     did        |-> MapOf({[k |-> e.k, v |-> [doc |-> NDoc(e.doc), seq |-> e.seq]] : e \in R(j.did)}),
     denoms     |-> {[id |-> e.id, v |-> [owner |-> e.owner, name |-> e.name, symbol |-> e.symbol, desc |-> e.desc, uri |-> e.uri, hash |-> e.hash, data |-> e.data]] : e \in R(j.denoms)},
     pnfts      |-> {[denom |-> e.denom, id |-> e.id, v |-> [name |-> e.name, desc |-> e.desc, uri |-> e.uri, hash |-> e.hash, data |-> e.data,
                                                           creator |-> e.creator, at |-> e.at, owner |-> e.owner]] : e \in R(j.pnfts)}]

\* evaluated in the state BEFORE the export step (unprimed variables): the exported content is Genesis!Gen of that state, nothing
\* unnameable, and the lists hold every denom / token once
ExportContent(rec) ==
    IF act'.name = "ExportImportBegin" /\ act'.exportOk /\ "genesis" \in DOMAIN rec
    THEN /\ Drift("export-content", LogGen(rec.genesis) = Gen)
         /\ Drift("export-junk", Len(rec.genesis.junk) = 0)
         /\ Chk("C08", rec.genesis.fillers = obs.fillers)            \* every bulk entry is in the export ...
         /\ Drift("export-duplicates", rec.genesis.nDenoms = Cardinality(Gen.denoms) /\ rec.genesis.nPnfts = Cardinality(Gen.pnfts))
    ELSE TRUE

Conformance ==
    /\ IF Dispatch THEN TRUE
       ELSE /\ Report("DRIFT", "step:" \o act'.name)
            /\ IF act'.name = "Deliver" THEN PrintT(<<"DRIFTDETAIL", obs'.run, obs'.i, DeliverDiff>>) ELSE TRUE
    /\ Drift("junk", obs'.junk = 0)
    /\ Drift("spendable", \A e \in obs'.spend : e.n = SpendableAt(CS', e.a, e.d, height'))
    /\ Drift("listErrs", obs'.listErrs = {})
    /\ Chk(IF act'.name = "ExportImportBegin" THEN "C08" ELSE "C10", obs'.fillers = obs.fillers)   \* ... and no step ever loses or changes one

TraceInit ==
    /\ l = 1
    /\ height = 0 /\ phase = "none"
    /\ aolOwners = << >> /\ aolTopics = << >> /\ aolWriters = << >> /\ aolRecords = << >>
    /\ didReg = << >> /\ pnDenoms = << >> /\ pnTokens = << >> /\ pnIndex = {} /\ pnSupply = << >>
    /\ bal = [a \in Tracked |-> [d \in Denoms |-> 0]] /\ vest = {} /\ exists = {} /\ supply = [d \in Denoms |-> 0] /\ rest = [d \in Denoms |-> 0] /\ pending = {}
    /\ grants = {} /\ act = [name |-> "none"]
    /\ acked = {} /\ accepted = {} /\ delivered = << >>
    /\ view = << >> /\ obs = << >> /\ accSnap = {} /\ touring = FALSE /\ base = << >>

\* C15 (atomicity, differential form): in a tour every transaction is fired at the same marked state; transactions that fail are not undone
\* by a restart, so whatever they leave behind - in the stores or in process memory - is still there when the next one runs.  The outcome of a
\* transaction must therefore not depend on which failed transactions were delivered before it: same result, same code, same resulting state
\* as the first time it was fired at this state.  (Independent of the specification's own predictions.)
Outcome2(a) == [result |-> a.result, failIdx |-> a.failIdx, code |-> a.code, offs |-> a.offs, post |-> custom']
TourCheck ==
    IF touring /\ act'.name = "Deliver"
    THEN IF act'.tx \in DOMAIN base
         THEN /\ base' = base
              /\ Chk("C15", base[act'.tx] = Outcome2(act'))
         ELSE base' = [x \in DOMAIN base \cup {act'.tx} |-> IF x = act'.tx THEN Outcome2(act') ELSE base[x]]
    ELSE base' = base

TraceNext ==
    /\ l <= Len(Log)
    /\ l' = l + 1
    /\ LET rec == Log[l] IN
       /\ Observe(rec)
       /\ acked' = R(rec.acked)
       /\ CASE rec.ev = "init" ->          \* a new trace starts
                 /\ accepted' = {} /\ accSnap' = {} /\ delivered' = << >> /\ touring' = FALSE /\ base' = << >>
                 /\ StateProps
                 /\ Drift("junk", obs'.junk = 0)
            [] rec.ev = "mark" ->          \* tour: the state every following transaction is fired at
                 /\ accepted' = accepted /\ accSnap' = accepted /\ delivered' = delivered /\ touring' = TRUE /\ base' = << >>
                 /\ StateProps
            [] rec.ev = "reset" ->         \* tour: the harness went back to the marked (committed) state
                 /\ accepted' = accSnap /\ accSnap' = accSnap /\ delivered' = delivered /\ touring' = touring /\ base' = base
                 /\ StateProps
            [] OTHER ->
                 /\ accepted' = accepted \cup NewAccepted(act')
                 /\ delivered' = delivered \o NewDelivered(act')
                 /\ accSnap' = accSnap /\ touring' = touring
                 /\ TourCheck
                 /\ StepProps
                 /\ StateProps
                 /\ Conformance
                 /\ ExportContent(rec)
                 \* the harness' own bookkeeping of acknowledged records agrees with the specification's
                 /\ Drift("acked", acked' = acked \cup NewAcks(act', height))

TraceSpec == TraceInit /\ [][TraceNext]_tvars

\* every line of the log was consumed
TraceAccepted == TLCGet("stats").diameter = Len(Log) + 1
=============================================================================
