--------------------------- MODULE SignBytesTrace ---------------------------
(***************************************************************************)
(* Binds SignBytes.tla to the real sign-mode handlers.  The harness        *)
(* computed, for every message of the alphabet, the REAL bytes an account  *)
(* signs in SIGN_MODE_DIRECT, DIRECT_AUX and LEGACY_AMINO_JSON (same chain *)
(* id, account, sequence, fee for all).  The log has one section per sort  *)
(* key; inside a section records are sorted by that key, so that equal     *)
(* keys are adjacent and only neighbours need comparing:                   *)
(*   direct / aux : two different messages never share sign bytes;         *)
(*   amino        : messages share real sign bytes only where the          *)
(*                  specification's amino structure coincides (akey), and  *)
(*                  then only in the recorded type-less classes;           *)
(*   akey         : conformance - where the specification predicts a       *)
(*                  collision the real bytes do collide.                   *)
(***************************************************************************)
EXTENDS Integers, Sequences, TLC, Json, IOUtils, TLCExt

VARIABLES l, prev, by
tvars == <<l, prev, by>>

Log == ndJsonDeserialize(IOEnv.TRACE_FILE)

Report(kind, id, rec) == PrintT(<<kind, id, rec.id, rec.i, l>>)
Chk(id, cond, rec) == IF cond THEN TRUE ELSE Report("VIOLATION", id, rec)

Typeless(a, b) ==
    \/ {a, b} \subseteq {"aol.AddWriter", "aol.DeleteWriter", "aol.AddRecord"} /\ a # b
    \/ {a, b} = {"did.Create", "did.Update"}

None == [i |-> -1]

Compare(p, c) ==
    CASE by = "direct" -> Chk("C14", p.direct # c.direct, c)
      [] by = "aux"    -> Chk("C14", p.aux # c.aux, c)
      [] by = "amino"  ->
            IF p.amino # c.amino \/ c.amino = "unavailable" THEN TRUE
            ELSE IF p.akey = c.akey /\ Typeless(p.type, c.type) THEN Report("VIOLATION", "C14:amino-typeless", c)
            ELSE Report("VIOLATION", "C14", c)
      [] by = "akey"   ->
            IF p.akey = c.akey /\ c.akey # "unavailable" /\ p.amino # c.amino THEN Report("DRIFT", "amino-predicted-collision-absent", c) ELSE TRUE
      [] OTHER -> TRUE

TraceInit == l = 1 /\ prev = None /\ by = ""

TraceNext ==
    /\ l <= Len(Log)
    /\ l' = l + 1
    /\ LET rec == Log[l] IN
       IF rec.ev = "section" THEN by' = rec.by /\ prev' = None
       ELSE IF rec.ev = "pair" THEN /\ UNCHANGED <<by, prev>>
                                     \* two-message transactions over messages A # B of one type: [A,B], [B,A], [A,A], [B,B] are four different transactions
                                     /\ IF rec.distinct THEN TRUE ELSE PrintT(<<"VIOLATION", "C14", rec.id, rec.i, l>>)
                                     /\ IF rec.panic THEN PrintT(<<"VIOLATION", "C17", rec.id, rec.i, l>>) ELSE TRUE
       ELSE IF rec.ev = "xproc" THEN /\ UNCHANGED <<by, prev>>
                                      /\ IF rec.equal THEN TRUE ELSE PrintT(<<"VIOLATION", "C14", "nondeterministic-across-processes", 0, l>>)
       ELSE /\ by' = by /\ prev' = rec
            /\ Chk("C14", rec.det, rec)              \* the same bytes every time they are computed (in one process)
            /\ Chk("C17", ~rec.panic, rec)
            /\ IF prev = None THEN TRUE ELSE Compare(prev, rec)

TraceSpec == TraceInit /\ [][TraceNext]_tvars
TraceAccepted == TLCGet("stats").diameter = Len(Log) + 1
=============================================================================
