------------------------------- MODULE Shapes -------------------------------
(***************************************************************************)
(* C16 / C17: the stateless acceptance of every custom message as a case   *)
(* analysis over a finite lattice of FIELD SHAPES, with the oracle written *)
(* from the published limits (.gitbook/specifications/aol.md, docs/did.md) *)
(* - not from the Go code.                                                 *)
(*                                                                         *)
(* A case is [type, f] where f maps each field of the message type to a    *)
(* shape label; the harness turns labels into real bytes (lengths counted  *)
(* in bytes; multi-byte, control and separator characters; malformed       *)
(* addresses; structurally absurd documents).  TLC enumerates, per type,   *)
(* the valid baseline, every single deviation and every pair of deviations *)
(* (CaseDump), and ShapesTrace.tla evaluates Verdict on every executed     *)
(* case: the real ValidateBasic must accept exactly the "accept" cases,    *)
(* reject exactly the "reject" cases; "any" marks shapes the published     *)
(* text does not settle (only totality is demanded there).                 *)
(*                                                                         *)
(* Readings taken where the text is silent (each one deliberate):          *)
(*  - key types: any non-empty name is a "named key type";                 *)
(*  - an absent @context / controller is well-formed; an empty controller  *)
(*    list counts as absent;                                               *)
(*  - "non-space" = no whitespace character;                               *)
(*  - bech32 in all upper case, a context list with an empty entry: "any"; *)
(*  - pnft identifiers are well-formed iff non-empty and free of the NUL   *)
(*    store-key delimiter; descriptions/uris/data are unconstrained.       *)
(***************************************************************************)
EXTENDS Integers, Sequences, FiniteSets, TLC

\* ---- label domains and their classification: "ok" | "bad" | "any"

\* besides the published limit (70 / 71) the lengths around the one-byte boundary of the composite-key codec (255 / 256 / 257): a limit that moves
\* must not meet a panic further down
TopicL   == {"c1", "c70", "punct", "len0", "len71", "len140", "len255", "len256", "len257", "len10000", "space", "slash", "ctrl", "utf8", "trailnl", "nul", "utf8_70b",
             "caret", "bracket", "backslash", "backtick", "at", "brace", "colon", "plus", "upperlower"}
TopicCls(l)   == IF l \in {"c1", "c70", "punct", "upperlower"} THEN "ok" ELSE "bad"
MonikerL == TopicL
MonikerCls(l) == IF l \in {"c1", "c70", "punct", "len0", "upperlower"} THEN "ok" ELSE "bad"
DescL    == {"len0", "len1", "len4999", "len5000", "len5001", "len10000", "mb5000", "mb5001", "mb_5000runes", "ctrl"}
DescCls(l)    == IF l \in {"len5001", "len10000", "mb5001", "mb_5000runes"} THEN "bad" ELSE "ok"
KeyL     == {"len0", "len1", "len69", "len70", "len71", "len5000", "bin70", "bin71"}
KeyCls(l)     == IF l \in {"len71", "len5000", "bin71"} THEN "bad" ELSE "ok"
ValL     == {"len0", "len1", "len4999", "len5000", "len5001", "len10000", "bin5000", "bin5001"}
ValCls(l)     == IF l \in {"len5001", "len10000", "bin5001"} THEN "bad" ELSE "ok"
AddrL    == {"ok20", "ok32", "wronghrp", "badsum", "empty", "upper", "garbage", "mixedcase", "valoper", "len0payload"}
AddrCls(l)    == IF l \in {"ok20", "ok32"} THEN "ok" ELSE IF l = "upper" THEN "any" ELSE "bad"
FeePayerL == AddrL \cup {"none"}
FeePayerCls(l) == IF l \in {"none", "empty"} THEN "ok" ELSE AddrCls(l)      \* the optional field left empty

DidL     == {"ok44", "ok32", "len31", "len45", "nonb58", "wrongmethod", "upperprefix", "empty", "trailnl", "nomethod"}
DidCls(l)     == IF l \in {"ok44", "ok32"} THEN "ok" ELSE "bad"
DocL     == {"valid", "nil", "empty", "idmismatch", "novm", "noauth", "rich"}
DocCls(l)     == IF l \in {"valid", "rich"} THEN "ok" ELSE "bad"
\* the suffix after the FIRST "#" is what the limit and the non-space rule apply to: further "#" are ordinary characters of it
VmIdL    == {"s1", "s128", "s0", "s129", "space", "tab", "newline", "foreign", "nohash", "hash2", "hash2space", "hash2long", "hash2s128"}
VmIdCls(l)    == IF l \in {"s1", "s128", "hash2", "hash2s128"} THEN "ok" ELSE "bad"
KeyTypeL == {"es19", "es18", "ed25", "unknown", "empty"}
KeyTypeCls(l) == IF l = "empty" THEN "bad" ELSE "ok"
PubKeyL  == {"b58", "nonb58", "empty", "b58short"}
PubKeyCls(l)  == IF l \in {"b58", "b58short"} THEN "ok" ELSE "bad"
\* relationship lists of one entry, and of two entries with the malformed one in either position and after either kind of well-formed entry
\* (every entry of a list is validated, wherever it stands)
RelL     == {"ref", "dangling", "ded", "dedbadid", "dedbadkey", "nilcontent", "refforeign",
             "ref_ded", "ded_ref", "ref_dangling", "dangling_ref", "ded_dangling", "dangling_ded", "ded_dedbadkey", "dedbadkey_ded", "ded_refforeign", "ded_nilcontent"}
RelCls(l)     == IF l \in {"ref", "ded", "ref_ded", "ded_ref"} THEN "ok" ELSE "bad"
\* "W3C context first and unique": a repeat is a repeat wherever it stands in the list (adjacent or not)
CtxL     == {"w3c", "absent", "other", "w3c_w3c", "w3c_empty", "w3c_x", "emptylist", "w3c_x_y", "w3c_x_w3c", "w3c_x_y_x", "x_w3c"}
CtxCls(l)     == IF l \in {"w3c", "absent", "w3c_x", "w3c_x_y"} THEN "ok" ELSE IF l \in {"w3c_empty", "emptylist"} THEN "any" ELSE "bad"
CtlL     == {"absent", "emptylist", "emptystr", "did", "bad", "did_bad"}
CtlCls(l)     == IF l \in {"bad", "did_bad"} THEN "bad" ELSE "ok"
SvcL     == {"none", "complete", "noid", "notype", "noendpoint", "two", "two_secondnoid", "two_secondnotype", "two_firstnoendpoint"}
SvcCls(l)     == IF l \in {"none", "complete", "two"} THEN "ok" ELSE "bad"
SigL     == {"present", "empty", "one"}
SigCls(l)     == IF l = "empty" THEN "bad" ELSE "ok"
VmRefL   == {"any", "empty", "long"}            \* the message's verification_method_id is not validated statelessly
VmRefCls(l)   == "ok"

IdL      == {"ok", "empty", "nul", "slash", "long300", "utf8", "space"}
IdCls(l)      == IF l \in {"empty", "nul"} THEN "bad" ELSE "ok"
NameL    == {"ok", "empty", "long10000"}
NameCls(l)    == IF l = "empty" THEN "bad" ELSE "ok"
FreeL    == {"ok", "empty", "long10000", "ctrl"}
FreeCls(l)    == "ok"
OptNameL == NameL                                \* UpdateDenom: name/symbol optional (empty = keep)
OptNameCls(l) == "ok"

\* ---- queries and key-store files (C17 only: no acceptance oracle, totality is all that is demanded)
QTopicL  == {"c1", "len0", "len255", "len256", "len300", "len10000", "nul", "utf8", "invalidutf8"}
QAddrL   == AddrL \cup {"invalidutf8", "long300"}
QOffL    == {"zero", "one", "max", "big"}
PagL     == {"nil", "l1", "l0", "hugeLimit", "hugeOffset", "keyGarbage", "keyAndOffset", "reverse", "countTotal"}
QDidL    == {"ok", "empty", "notb64", "b64garbage", "b64long"}
QIdL     == {"ok", "empty", "nul", "long300", "long10000", "invalidutf8"}
ViaL     == {"abci", "keeper", "nilreq"}
KsVerL   == {"v3", "v2", "v0"}
KsStrL   == {"std", "other", "empty"}
KsIterL  == {"one", "zero", "neg", "std"}
KsDkL    == {"d32", "dneg", "d0", "d1", "d16", "d31", "d33", "d1024", "d1025", "dmaxint"}
KsHexL   == {"ok", "empty", "short", "long", "nonhex"}
KsMacL   == {"ok", "wrong", "empty", "nonhex"}
KsPwL    == {"right", "wrong", "empty"}
KsJsonL  == {"valid", "truncated", "notjson", "wrongtypes", "emptyobj", "missingfile"}

\* ---- message types: fields, baseline, classifier

Types == {"aol.CreateTopic", "aol.AddWriter", "aol.DeleteWriter", "aol.AddRecord",
          "did.Create", "did.Update", "did.Deactivate",
          "pnft.CreateDenom", "pnft.UpdateDenom", "pnft.DeleteDenom", "pnft.TransferDenom", "pnft.Mint", "pnft.Transfer", "pnft.Burn"}

QueryTypes == {"q.aol.Topic", "q.aol.Topics", "q.aol.Writer", "q.aol.Writers", "q.aol.Record", "q.did.DID",
               "q.pnft.Denom", "q.pnft.Denoms", "q.pnft.DenomsByOwner", "q.pnft.PNFT", "q.pnft.PNFTs", "q.pnft.PNFTsByDenomOwner"}
OtherTypes == {"ks.Load"}
AllTypes == Types \cup QueryTypes \cup OtherTypes

\* the DID document is described by several shape fields (all relative to a valid baseline document)
DocFields == {"doc", "vmid", "keytype", "pubkey", "rel", "ctx", "ctl", "svc"}

Fields(ty) ==
    CASE ty = "aol.CreateTopic"  -> {"topic", "desc", "owner"}
      [] ty = "aol.AddWriter"    -> {"topic", "moniker", "desc", "writer", "owner"}
      [] ty = "aol.DeleteWriter" -> {"topic", "writer", "owner"}
      [] ty = "aol.AddRecord"    -> {"topic", "key", "value", "writer", "owner", "feepayer"}
      [] ty \in {"did.Create", "did.Update"} -> {"did", "sig", "from", "vmref"} \cup DocFields
      [] ty = "did.Deactivate"   -> {"did", "sig", "from", "vmref"}
      [] ty = "pnft.CreateDenom" -> {"id", "name", "symbol", "desc", "uri", "data", "actor"}
      [] ty = "pnft.UpdateDenom" -> {"id", "optname", "optsymbol", "desc", "uri", "data", "actor"}
      [] ty = "pnft.DeleteDenom" -> {"id", "actor"}
      [] ty = "pnft.TransferDenom" -> {"id", "actor", "to"}
      [] ty = "pnft.Mint"        -> {"denom", "id", "name", "desc", "uri", "data", "actor"}
      [] ty = "pnft.Transfer"    -> {"denom", "id", "actor", "to"}
      [] ty = "pnft.Burn"        -> {"denom", "id", "actor"}
      [] ty = "q.aol.Topic"      -> {"qowner", "qtopic", "via"}
      [] ty = "q.aol.Topics"     -> {"qowner", "pag", "via"}
      [] ty = "q.aol.Writer"     -> {"qowner", "qtopic", "qwriter", "via"}
      [] ty = "q.aol.Writers"    -> {"qowner", "qtopic", "pag", "via"}
      [] ty = "q.aol.Record"     -> {"qowner", "qtopic", "qoffset", "via"}
      [] ty = "q.did.DID"        -> {"qdid", "via"}
      [] ty = "q.pnft.Denom"     -> {"qid", "via"}
      [] ty = "q.pnft.Denoms"    -> {"pag", "via"}
      [] ty = "q.pnft.DenomsByOwner" -> {"qowner", "via"}
      [] ty = "q.pnft.PNFT"      -> {"qdenom", "qid", "via"}
      [] ty = "q.pnft.PNFTs"     -> {"qdenom", "via"}
      [] ty = "q.pnft.PNFTsByDenomOwner" -> {"qdenom", "qowner", "via"}
      [] ty = "ks.Load"          -> {"ksver", "kscipher", "kskdf", "ksprf", "ksc", "ksdklen", "ksiv", "kssalt", "ksct", "ksmac", "kspw", "ksjson"}

Dom(f) ==
    CASE f = "topic" -> TopicL [] f = "moniker" -> MonikerL [] f = "desc" -> DescL [] f = "key" -> KeyL [] f = "value" -> ValL
      [] f \in {"owner", "writer", "from", "actor", "to"} -> AddrL [] f = "feepayer" -> FeePayerL
      [] f = "did" -> DidL [] f = "doc" -> DocL [] f = "vmid" -> VmIdL [] f = "keytype" -> KeyTypeL [] f = "pubkey" -> PubKeyL
      [] f = "rel" -> RelL [] f = "ctx" -> CtxL [] f = "ctl" -> CtlL [] f = "svc" -> SvcL [] f = "sig" -> SigL [] f = "vmref" -> VmRefL
      [] f \in {"id", "denom"} -> IdL [] f \in {"name", "symbol"} -> NameL [] f \in {"optname", "optsymbol"} -> OptNameL
      [] f \in {"uri", "data"} -> FreeL
      [] f \in {"qowner", "qwriter"} -> QAddrL [] f = "qtopic" -> QTopicL [] f = "qoffset" -> QOffL [] f = "pag" -> PagL [] f = "qdid" -> QDidL
      [] f \in {"qid", "qdenom"} -> QIdL [] f = "via" -> ViaL
      [] f = "ksver" -> KsVerL [] f \in {"kscipher", "kskdf", "ksprf"} -> KsStrL [] f = "ksc" -> KsIterL [] f = "ksdklen" -> KsDkL
      [] f \in {"ksiv", "kssalt", "ksct"} -> KsHexL [] f = "ksmac" -> KsMacL [] f = "kspw" -> KsPwL [] f = "ksjson" -> KsJsonL

\* pnft descriptions are unconstrained, aol descriptions are limited: the field name "desc" is classified per type
Cls(ty, f, l) ==
    CASE f = "topic" -> TopicCls(l) [] f = "moniker" -> MonikerCls(l)
      [] f = "desc" -> (IF ty \in {"aol.CreateTopic", "aol.AddWriter"} THEN DescCls(l) ELSE "ok")
      [] f = "key" -> KeyCls(l) [] f = "value" -> ValCls(l)
      [] f \in {"owner", "writer", "from", "actor", "to"} -> AddrCls(l) [] f = "feepayer" -> FeePayerCls(l)
      [] f = "did" -> DidCls(l) [] f = "doc" -> DocCls(l) [] f = "vmid" -> VmIdCls(l) [] f = "keytype" -> KeyTypeCls(l) [] f = "pubkey" -> PubKeyCls(l)
      [] f = "rel" -> RelCls(l) [] f = "ctx" -> CtxCls(l) [] f = "ctl" -> CtlCls(l) [] f = "svc" -> SvcCls(l) [] f = "sig" -> SigCls(l) [] f = "vmref" -> VmRefCls(l)
      [] f \in {"id", "denom"} -> IdCls(l) [] f \in {"name", "symbol"} -> NameCls(l) [] f \in {"optname", "optsymbol"} -> OptNameCls(l)
      [] f \in {"uri", "data"} -> FreeCls(l)
      [] OTHER -> "any"           \* queries and key-store files: totality only

BaseOf(f) ==
    CASE f = "topic" -> "c1" [] f = "moniker" -> "c1" [] f = "desc" -> "len1" [] f = "key" -> "len1" [] f = "value" -> "len1"
      [] f \in {"owner", "writer", "from", "actor", "to"} -> "ok20" [] f = "feepayer" -> "none"
      [] f = "did" -> "ok44" [] f = "doc" -> "valid" [] f = "vmid" -> "s1" [] f = "keytype" -> "es19" [] f = "pubkey" -> "b58"
      [] f = "rel" -> "ref" [] f = "ctx" -> "w3c" [] f = "ctl" -> "absent" [] f = "svc" -> "none" [] f = "sig" -> "present" [] f = "vmref" -> "any"
      [] f \in {"id", "denom"} -> "ok" [] f \in {"name", "symbol", "optname", "optsymbol"} -> "ok" [] f \in {"uri", "data"} -> "ok"
      [] f \in {"qowner", "qwriter"} -> "ok20" [] f = "qtopic" -> "c1" [] f = "qoffset" -> "zero" [] f = "pag" -> "nil" [] f = "qdid" -> "ok"
      [] f \in {"qid", "qdenom"} -> "ok" [] f = "via" -> "abci"
      [] f = "ksver" -> "v3" [] f \in {"kscipher", "kskdf", "ksprf"} -> "std" [] f = "ksc" -> "one" [] f = "ksdklen" -> "d32"
      [] f \in {"ksiv", "kssalt", "ksct"} -> "ok" [] f = "ksmac" -> "ok" [] f = "kspw" -> "right" [] f = "ksjson" -> "valid"

Baseline(ty) == [f \in Fields(ty) |-> BaseOf(f)]

\* when the document itself is absent, empty or replaced, the other document shape fields have nothing to apply to
DocShapesApply(c) == "doc" \notin DOMAIN c.f \/ c.f["doc"] \in {"valid", "rich"}
Relevant(c, f) == f \notin (DocFields \ {"doc"}) \/ DocShapesApply(c)

Verdict(c) ==
    LET cls == {Cls(c.type, f, c.f[f]) : f \in {g \in DOMAIN c.f : Relevant(c, g)}} IN
    IF "bad" \in cls THEN "reject" ELSE IF "any" \in cls THEN "any" ELSE "accept"

\* ---- the cases: baseline, single deviations, pairs of deviations

Single1(ty) == UNION {{[type |-> ty, f |-> [Baseline(ty) EXCEPT ![f] = l]] : l \in Dom(f)} : f \in Fields(ty)}
Pairs(ty)   == UNION {UNION {{[type |-> ty, f |-> [Baseline(ty) EXCEPT ![f] = l, ![g] = k]] : l \in Dom(f), k \in Dom(g)} : g \in Fields(ty) \ {f}} : f \in Fields(ty)}

Triples(ty) == UNION {UNION {UNION {{[type |-> ty, f |-> [Baseline(ty) EXCEPT ![f] = l, ![g] = k, ![h] = m]] : l \in Dom(f), k \in Dom(g), m \in Dom(h)}
                                     : h \in Fields(ty) \ {f, g}} : g \in Fields(ty) \ {f}} : f \in Fields(ty)}

CONSTANT Depth       \* 1: baseline + singles; 2: + pairs; 3: + triples for the message types whose name starts with "aol." or "pnft."

IsSmallType(t) == t \in {"aol.CreateTopic", "aol.AddWriter", "aol.DeleteWriter", "aol.AddRecord"} \/ t \in {x \in AllTypes : Cardinality(Fields(x)) <= 4}

Cases(ty) == Single1(ty) \cup (IF Depth >= 2 THEN Pairs(ty) ELSE {}) \cup (IF Depth >= 3 /\ IsSmallType(ty) THEN Triples(ty) ELSE {})

VARIABLES ty, c
vars == <<ty, c>>
Init == ty \in AllTypes /\ c = [type |-> "none"]
Next == c.type = "none" /\ c' \in Cases(ty) /\ ty' = ty
Spec == Init /\ [][Next]_vars

\* sanity of the lattice itself: the baseline of every type is accepted, every field has both accepted and (unless unconstrained) rejected shapes
BaselineAccepted == (c.type = "none" /\ ty \in Types) => Verdict([type |-> ty, f |-> Baseline(ty)]) = "accept"
VerdictTotal == c.type # "none" => Verdict(c) \in {"accept", "reject", "any"}
\* a single bad field always rejects, whatever else is in the case (monotonicity of the limits)
Monotone == c.type # "none" => ((\E f \in DOMAIN c.f : Relevant(c, f) /\ Cls(c.type, f, c.f[f]) = "bad") <=> Verdict(c) = "reject")

CaseDump == c.type = "none" \/ PrintT(<<"CASE", c, Verdict(c)>>)
=============================================================================
