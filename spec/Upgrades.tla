------------------------------ MODULE Upgrades ------------------------------
(***************************************************************************)
(* C19, static part: the ordered list of upgrade descriptors of the binary *)
(* versus the set of stores the binary mounts.                             *)
(*                                                                         *)
(* A node that upgrades through the releases in order holds, after the     *)
(* i-th upgrade, Stores(i) = (Stores(i-1) \ Deleted_i) \cup Added_i on     *)
(* disk, starting from the stores that predate the first descriptor.       *)
(* The store loader can only add what is not there and delete what is;     *)
(* after the last upgrade the disk must hold exactly the mounted stores,   *)
(* otherwise LoadLatestVersion refuses to start ("version of store ...     *)
(* mismatch root store's version").                                        *)
(*                                                                         *)
(* All constants are EXTRACTED FROM THE CODE by the harness                 *)
(* (`harness upgrades`): Descriptors from the compiled app.Upgrades,       *)
(* Mounted from app.GetKVStoreKey(), Baseline from the module list the     *)
(* first descriptor's handler declares as pre-existing (fromVM), mapped to *)
(* store names, minus the modules that had no store at that SDK version    *)
(* (NoStoreThen - the only trusted constant), plus what that descriptor    *)
(* deletes.                                                                *)
(***************************************************************************)
EXTENDS Integers, Sequences, FiniteSets, TLC

CONSTANTS Descriptors,   \* sequence of [name, added, deleted]
          Mounted,       \* set of store names
          Baseline       \* set of store names

VARIABLES i, stores

vars == <<i, stores>>

Init == i = 0 /\ stores = Baseline

Apply ==
    /\ i < Len(Descriptors)
    /\ i' = i + 1
    /\ stores' = (stores \ Descriptors[i + 1].deleted) \cup Descriptors[i + 1].added

Next == Apply

Spec == Init /\ [][Next]_vars

\* each descriptor only adds stores that do not exist yet and only deletes stores that exist
StepOk == [][ /\ Descriptors[i + 1].added \cap stores = {}
              /\ Descriptors[i + 1].deleted \subseteq stores ]_vars

\* nothing is both added and deleted by one descriptor
WellFormed == \A j \in DOMAIN Descriptors : Descriptors[j].added \cap Descriptors[j].deleted = {}

\* after the last upgrade the disk holds exactly what the binary mounts:
\* every mounted store predates the first descriptor or is introduced - and not later removed - by one of them
FinalIsMounted == i = Len(Descriptors) => stores = Mounted

\* no intermediate release is asked to run without a store it will still need... (weaker, informative):
\* a store that is mounted at the end and existed at some point is never deleted in between
NeverDeleteMounted == \A j \in DOMAIN Descriptors : Descriptors[j].deleted \cap Mounted = {}
=============================================================================
