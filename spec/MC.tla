---------------------------------- MODULE MC ----------------------------------
(***************************************************************************)
(* Bounded instances of Panacea.tla for exhaustive model checking,         *)
(* simulation and behaviour generation.  One module, several configs       *)
(* (cfg/*.cfg) that pick the message alphabet of a property family.        *)
(***************************************************************************)
EXTENDS Props, Randomization, Json

CONSTANTS
    Topics, Descs, Mons, RecKeys, RecVals,     \* aol alphabet
    FeePayers,                                  \* fee payer choices of AddRecord: subset of Accts \cup {"none"}
    NearProofs,                                 \* BOOLEAN: the alphabet also holds NEAR-valid proofs (a valid signature with one more byte; a deactivation proof over the stub that carries a context)
    LegacyGenesis,                              \* BOOLEAN: the chain starts with a legacy registry entry (key "dc" holding a document about "d1", as chains could
                                                \* contain before the did/document binding was enforced; genesis validation admits it)
    ForeignVm,                                  \* BOOLEAN: update/deactivate may name a verification method of another DID
    Dids, DocNames, Keys, VmNames, Seqs,        \* did alphabet (documents are built in DocByName; Seqs: sequence numbers proofs are made over)
    DenomIds, TokenIds, DNames, TDescs,         \* pnft alphabet (TDescs: token description / data values, may include "")
    Amts, SendDenoms, VestEnds,                 \* bank alphabet
    GovAmts,                                    \* amounts of governance community-pool spends to the burn address ({} = none)
    Fees,                                       \* fee choices, e.g. {0,1}
    Tips,                                       \* subset of Accts \cup {"none"}: the account named in the envelope's tip field
    Fees2,                                      \* amounts of the SECOND denomination added to the fee, e.g. {0} or {0, 3}
    Kinds,                                      \* enabled message types
    SignerSets,                                 \* "exact" | "all": which signer sets are tried
    ExecOn,                                     \* BOOLEAN: also wrap single-signer messages in authz Exec
    MaxDeliver,                                 \* bound on the number of Deliver steps
    MaxTxLen,                                   \* 1 or 2
    Mints,                                      \* minted amounts tried at BeginBlock, e.g. {0}
    NextKinds,                                  \* subset of {"BeginBlock","RestartBegin","ExportImportBegin"}
    SimSample,                                  \* 0: the whole message alphabet at every step; n > 0 (simulation only): a random sample of n messages per step
    BlockKeep,                                  \* 1: EndBlock always enabled; k > 1 (simulation only): enabled with probability 1/k (longer blocks)
    FailKeep                                    \* 1: every rejected transaction is explored; k > 1 (simulation only): a rejected one is kept with probability 1/k

VARIABLES ndel,
          path      \* history: the actions that led here (kept out of the state view; gives every distinct state one shortest path)

mcvars == <<allvars, ndel, path>>

InitBal == 1000000

-----------------------------------------------------------------------------
(* message alphabets *)

AolMsgs ==
    (IF "aol.CreateTopic" \in Kinds THEN
        {[type |-> "aol.CreateTopic", owner |-> o, topic |-> t, desc |-> d] : o \in Accts, t \in Topics, d \in Descs} ELSE {})
    \cup (IF "aol.AddWriter" \in Kinds THEN
        {[type |-> "aol.AddWriter", owner |-> o, topic |-> t, writer |-> w, mon |-> mo, desc |-> d] :
            o \in Accts, t \in Topics, w \in Accts, mo \in Mons, d \in Descs} ELSE {})
    \cup (IF "aol.DeleteWriter" \in Kinds THEN
        {[type |-> "aol.DeleteWriter", owner |-> o, topic |-> t, writer |-> w] : o \in Accts, t \in Topics, w \in Accts} ELSE {})
    \cup (IF "aol.AddRecord" \in Kinds THEN
        {[type |-> "aol.AddRecord", owner |-> o, topic |-> t, writer |-> w, key |-> k, val |-> v, feePayer |-> f] :
            o \in Accts, t \in Topics, w \in Accts, k \in RecKeys, v \in RecVals, f \in FeePayers} ELSE {})

\* --- DID documents: a small alphabet per DID that spans the placement categories ---
Vm(n, k, ty)      == [n |-> n, key |-> k, type |-> ty]
Ref(n)            == [n |-> n, ded |-> FALSE, key |-> "", type |-> ""]
Ded(n, k, ty)     == [n |-> n, ded |-> TRUE, key |-> k, type |-> ty]
Doc(d, vms, auth, asrt) == [id |-> d, vms |-> vms, auth |-> auth, asrt |-> asrt, ex |-> ""]

\* k1 = the DID's first key, k2 = a second key, k3 = a key never listed under authentication
DocByName(d, name) ==
    CASE name = "A1"  -> Doc(d, {Vm("v1", "k1", "es19")}, {Ref("v1")}, {})                                   \* one referenced authentication key
      [] name = "A2"  -> Doc(d, {Vm("v1", "k2", "es19")}, {Ref("v1")}, {})                                   \* rotated: same method id, other key
      [] name = "B12" -> Doc(d, {Vm("v1", "k1", "es19"), Vm("v2", "k2", "es18")}, {Ref("v1"), Ref("v2")}, {}) \* two authentication keys (2019 + 2018 types)
      [] name = "C1"  -> Doc(d, {Vm("v1", "k1", "es19"), Vm("v2", "k2", "es19")}, {Ref("v1")}, {"v2"})       \* k2 only a verification method + assertionMethod
      [] name = "D2"  -> Doc(d, {Vm("v1", "k1", "es19")}, {Ref("v1"), Ded("v2", "k2", "es19")}, {})          \* dedicated authentication method
      [] name = "F12" -> Doc(d, {Vm("v1", "k1", "es19")}, {Ded("v1", "k2", "es19")}, {"v1"})                  \* dedicated authentication method (k2) sharing its id with a plain verification method (k1)
      [] name = "R1"  -> [Doc(d, {Vm("v1", "k1", "es19")}, {Ref("v1")}, {}) EXCEPT !.ex = "rich"]                    \* A1 plus controller, contexts, key agreement, services
      [] name = "E1"  -> Doc(d, {Vm("v1", "k1", "ed25")}, {Ref("v1")}, {})                                   \* Ed25519-typed method holding a secp256k1 key
      [] name = "U1"  -> Doc(d, {Vm("v1", "k1", "x20")}, {Ref("v1")}, {})                                   \* a key type the module has no constant for (any non-empty type string is admitted statelessly)
      [] name = "R2"  -> [Doc(d, {Vm("v1", "k1", "es19")}, {Ref("v1")}, {}) EXCEPT !.ex = "rich2"]                   \* R1 with its controller listed twice
      [] name = "X1"  -> [Doc(d, {Vm("v1", "k1", "es19")}, {Ref("v1")}, {}) EXCEPT !.ex = "xvm"]                     \* A1 whose method ids carry the TWIN did's prefix (malformed)
      [] name = "N0"  -> Doc(d, {Vm("v1", "k1", "es19")}, {}, {})                                            \* no authentication at all (statelessly invalid)
      [] name = "EMP" -> EmptyDoc

DocsOf(d) == {DocByName(d, n) : n \in DocNames}
AllDocs == UNION {DocsOf(d) : d \in Dids}

\* proofs: any key, over the message's own document, another document, or a deactivation payload; sequence relative to the current one
SeqChoices(d) == Seqs      \* absolute sequence numbers: stale, current and future ones all occur

Init ==
    /\ height = 2 /\ phase = "in"
    /\ aolOwners = << >> /\ aolTopics = << >> /\ aolWriters = << >> /\ aolRecords = << >>
    /\ didReg = IF LegacyGenesis THEN [d \in {"dc"} |-> [doc |-> DocByName("d1", "A1"), seq |-> 0]] ELSE << >>
    /\ pnDenoms = << >> /\ pnTokens = << >> /\ pnIndex = {} /\ pnSupply = << >>
    /\ bal = [a \in Tracked |-> [d \in Denoms |-> IF a \in Accts THEN (IF d = "umed" THEN InitBal ELSE 1000) ELSE 0]]
    /\ vest = {} /\ exists = Accts \cup {FeeColl}
    /\ supply = [d \in Denoms |-> IF d = "umed" THEN InitBal * Cardinality(Accts) + 1000001 ELSE 1000 * Cardinality(Accts)]
    /\ rest = [d \in Denoms |-> IF d = "umed" THEN 1000001 ELSE 0]
    /\ pending = {}
    /\ grants = {}
    /\ act = [name |-> "Init"]
    /\ acked = {} /\ accepted = {} /\ delivered = << >>
    /\ ndel = 0
    /\ path = << >>

\* "k+" names the signature of key k followed by one extra byte; DeactCtx(d) is DIDDocument{Id: d} plus the default context.  Neither is a proof
\* of anything: the specification's ValidProof finds no key called "k+", and a deactivation is proved over DeactDoc(d) exactly.
DeactCtx(d) == [DeactDoc(d) EXCEPT !.ex = "ctx"]
PadKey(k) == k \o "+"

ProofsFor(d, own) ==
    {[key |-> k, data |-> dt, seq |-> s] : k \in Keys, dt \in ({own} \cup {DeactDoc(x) : x \in Dids}), s \in SeqChoices(d)}
    \cup {[key |-> "none", data |-> own, seq |-> 0]}
    \cup (IF NearProofs THEN {[key |-> PadKey(k), data |-> dt, seq |-> s] : k \in Keys, dt \in {own, DeactDoc(d)}, s \in SeqChoices(d)}
                               \cup {[key |-> k, data |-> DeactCtx(d), seq |-> s] : k \in Keys, s \in SeqChoices(d)}
           ELSE {})

Relayer == CHOOSE a \in Accts : TRUE

\* the DID named in a message's verification method id: the DID itself, or (ForeignVm) any other DID of the alphabet
VmDids(d) == IF ForeignVm THEN Dids ELSE {d}

DidMsgs ==
    (IF "did.Create" \in Kinds THEN
        UNION { UNION { {[type |-> "did.Create", did |-> d, doc |-> dc, vm |-> v, vmDid |-> vd, proof |-> p, from |-> Relayer] :
                            v \in VmNames, p \in ProofsFor(d, dc), vd \in {d, IF dc.id = "" THEN d ELSE dc.id}} : dc \in AllDocs } : d \in Dids } ELSE {})
    \cup (IF "did.Update" \in Kinds THEN
        UNION { UNION { {[type |-> "did.Update", did |-> d, doc |-> dc, vm |-> v, vmDid |-> vd, proof |-> p, from |-> Relayer] :
                            v \in VmNames, p \in ProofsFor(d, dc), vd \in VmDids(d)} : dc \in AllDocs } : d \in Dids } ELSE {})
    \cup (IF "did.Deactivate" \in Kinds THEN
        UNION { {[type |-> "did.Deactivate", did |-> d, vm |-> v, vmDid |-> vd, proof |-> p, from |-> Relayer] :
                            v \in VmNames, p \in ProofsFor(d, DeactDoc(d)), vd \in VmDids(d)} : d \in Dids } ELSE {})

\* simulation aid: DID messages whose proof is made with a current authentication key over the right payload and sequence - for every
\* (did field, document) combination, including documents about another DID. Uniform sampling of the alphabet almost never draws these.
DidLikely ==
    IF Kinds \cap {"did.Create", "did.Update", "did.Deactivate"} = {} THEN {}
    ELSE UNION { LET c == Cell(didReg, d) IN
                 IF Status(c) = "absent"
                 THEN UNION { {[type |-> "did.Create", did |-> d, doc |-> dc, vm |-> a.n, vmDid |-> vd,
                                proof |-> [key |-> k, data |-> dc, seq |-> 0], from |-> Relayer] : a \in dc.auth, k \in AuthKeysOf(dc), vd \in {d, dc.id}} : dc \in AllDocs \ {EmptyDoc} }
                 ELSE IF Status(c) = "active"
                 THEN UNION { {[type |-> "did.Update", did |-> d, doc |-> dc, vm |-> a.n, vmDid |-> c.doc.id,
                                proof |-> [key |-> k, data |-> dc, seq |-> c.seq], from |-> Relayer] : a \in c.doc.auth, k \in AuthKeysOf(c.doc)} : dc \in AllDocs }
                      \cup {[type |-> "did.Deactivate", did |-> d, vm |-> a.n, vmDid |-> c.doc.id,
                             proof |-> [key |-> k, data |-> DeactDoc(d), seq |-> c.seq], from |-> Relayer] : a \in c.doc.auth, k \in AuthKeysOf(c.doc)}
                 ELSE {}
               : d \in Dids }

\* simulation aid: update/deactivate messages for one DID whose proof would be VALID IF IT WERE CHECKED AGAINST ANOTHER registry entry -
\* another stored DID's authentication key and method id, over that DID's or the target's sequence number.  The specification rejects all of
\* them (the proof must come from the target's own stored document); code that looks the key up in the wrong entry (a controller, a
\* case-folded twin, a cached document) accepts them.  Never drawn by uniform sampling.
DidCross ==
    IF ~ForeignVm \/ Kinds \cap {"did.Update", "did.Deactivate"} = {} THEN {}
    ELSE UNION { UNION { LET c == Cell(didReg, d)
                             ce == Cell(didReg, e) IN
                         IF d = e \/ Status(c) # "active" \/ Status(ce) # "active" THEN {}
                         ELSE UNION { {[type |-> "did.Update", did |-> d, doc |-> dc, vm |-> a.n, vmDid |-> ce.doc.id,
                                        proof |-> [key |-> k, data |-> dc, seq |-> sq], from |-> Relayer] :
                                            a \in ce.doc.auth, k \in AuthKeysOf(ce.doc), sq \in {c.seq, ce.seq}} : dc \in DocsOf(d) }
                              \cup {[type |-> "did.Deactivate", did |-> d, vm |-> a.n, vmDid |-> ce.doc.id,
                                     proof |-> [key |-> k, data |-> DeactDoc(d), seq |-> sq], from |-> Relayer] :
                                            a \in ce.doc.auth, k \in AuthKeysOf(ce.doc), sq \in {c.seq, ce.seq}}
                       : e \in Dids } : d \in Dids }

\* simulation aid: messages that differ from a VALID update/deactivation of a stored DID in one respect only - the signature carries one more byte,
\* or the deactivation payload is the stub with a context.  Lenient verification code accepts them; the specification does not.
DidNear ==
    IF ~NearProofs THEN {}
    ELSE UNION { LET c == Cell(didReg, d) IN
                 IF Status(c) # "active" THEN {}
                 ELSE UNION { {[type |-> "did.Update", did |-> d, doc |-> dc, vm |-> a.n, vmDid |-> c.doc.id,
                                proof |-> [key |-> PadKey(k), data |-> dc, seq |-> c.seq], from |-> Relayer] : a \in c.doc.auth, k \in AuthKeysOf(c.doc)} : dc \in DocsOf(d) }
                      \cup {[type |-> "did.Deactivate", did |-> d, vm |-> a.n, vmDid |-> c.doc.id,
                             proof |-> [key |-> kk, data |-> dt, seq |-> c.seq], from |-> Relayer] :
                                 a \in c.doc.auth, kk \in {PadKey(k) : k \in AuthKeysOf(c.doc)} \cup AuthKeysOf(c.doc), dt \in {DeactCtx(d)}}
                      \cup {[type |-> "did.Deactivate", did |-> d, vm |-> a.n, vmDid |-> c.doc.id,
                             proof |-> [key |-> PadKey(k), data |-> DeactDoc(d), seq |-> c.seq], from |-> Relayer] : a \in c.doc.auth, k \in AuthKeysOf(c.doc)}
               : d \in Dids }

PnMsgs ==
    (IF "pnft.CreateDenom" \in Kinds THEN
        {[type |-> "pnft.CreateDenom", id |-> i, actor |-> a, name |-> n, symbol |-> "S", desc |-> "", uri |-> "", hash |-> "", data |-> ""] :
            i \in DenomIds, a \in Accts, n \in DNames} ELSE {})
    \cup (IF "pnft.UpdateDenom" \in Kinds THEN
        {[type |-> "pnft.UpdateDenom", id |-> i, actor |-> a, name |-> n, symbol |-> "", desc |-> "", uri |-> "", hash |-> "", data |-> dt] :
            i \in DenomIds, a \in Accts, n \in (DNames \cup {""}), dt \in {"", "z"}} ELSE {})
    \cup (IF "pnft.DeleteDenom" \in Kinds THEN
        {[type |-> "pnft.DeleteDenom", id |-> i, actor |-> a] : i \in DenomIds, a \in Accts} ELSE {})
    \cup (IF "pnft.TransferDenom" \in Kinds THEN
        {[type |-> "pnft.TransferDenom", id |-> i, actor |-> a, to |-> b] : i \in DenomIds, a \in Accts, b \in Accts} ELSE {})
    \cup (IF "pnft.Mint" \in Kinds THEN
        {[type |-> "pnft.Mint", denom |-> d, id |-> i, actor |-> a, name |-> n, desc |-> ds, uri |-> "u", hash |-> "", data |-> ds] :
            d \in DenomIds, i \in TokenIds, a \in Accts, n \in DNames, ds \in TDescs} ELSE {})
    \cup (IF "pnft.Transfer" \in Kinds THEN
        {[type |-> "pnft.Transfer", denom |-> d, id |-> i, actor |-> a, to |-> b] : d \in DenomIds, i \in TokenIds, a \in Accts, b \in Accts} ELSE {})
    \cup (IF "pnft.Burn" \in Kinds THEN
        {[type |-> "pnft.Burn", denom |-> d, id |-> i, actor |-> a] : d \in DenomIds, i \in TokenIds, a \in Accts} ELSE {})

BankMsgs ==
    (IF "bank.Send" \in Kinds THEN
        {[type |-> "bank.Send", from |-> f, to |-> t, denom |-> d, amt |-> n] : f \in Accts, t \in {BurnAcct}, d \in SendDenoms, n \in Amts} ELSE {})
    \cup (IF "bank.SendAcct" \in Kinds THEN
        {[type |-> "bank.Send", from |-> f, to |-> t, denom |-> d, amt |-> n] : f \in Accts, t \in Accts, d \in SendDenoms, n \in Amts} ELSE {})
    \cup (IF "bank.SendMod" \in Kinds THEN
        {[type |-> "bank.Send", from |-> f, to |-> t, denom |-> d, amt |-> n] : f \in Accts, t \in Blocked, d \in SendDenoms, n \in Amts \ {0}} ELSE {})
    \cup (IF "bank.MultiSend" \in Kinds THEN
        {[type |-> "bank.MultiSend", from |-> f, to |-> BurnAcct, denom |-> d, amt |-> n, parts |-> 2] : f \in Accts, d \in SendDenoms, n \in Amts} ELSE {})
    \cup (IF "vesting.Create" \in Kinds THEN
        {[type |-> "vesting.Create", from |-> f, to |-> BurnAcct, denom |-> d, amt |-> n, end |-> e] : f \in Accts, d \in SendDenoms, n \in Amts \ {0}, e \in VestEnds} ELSE {})

AuthzMsgs ==
    (IF "authz.Grant" \in Kinds THEN
        {[type |-> "authz.Grant", granter |-> g, grantee |-> e, msgType |-> t] : g \in Accts, e \in Accts, t \in (Kinds \cap CustomTypes)} ELSE {})
    \cup (IF "authz.Revoke" \in Kinds THEN
        {[type |-> "authz.Revoke", granter |-> g, grantee |-> e, msgType |-> t] : g \in Accts, e \in Accts, t \in (Kinds \cap CustomTypes)} ELSE {})

Msgs == AolMsgs \cup DidMsgs \cup PnMsgs \cup BankMsgs \cup AuthzMsgs

Pool(n) == IF SimSample = 0 \/ Cardinality(Msgs) <= n THEN Msgs
           ELSE RandomSubset(n, Msgs) \cup RandomSubset(IF Cardinality(DidLikely) < 6 THEN Cardinality(DidLikely) ELSE 6, DidLikely)
                \cup RandomSubset(IF Cardinality(DidCross) < 2 THEN Cardinality(DidCross) ELSE 2, DidCross)
                \cup RandomSubset(IF Cardinality(DidNear) < 2 THEN Cardinality(DidNear) ELSE 2, DidNear)

MsgSeqs == {<<m>> : m \in Pool(SimSample)}
           \cup (IF MaxTxLen >= 2 THEN {<<m1, m2>> : m1 \in Pool(SimSample \div 3 + 1), m2 \in Pool(SimSample \div 3 + 1)} ELSE {})
           \cup (IF MaxTxLen >= 3 THEN {<<m1, m2, m3>> : m1 \in Pool(SimSample \div 6 + 1), m2 \in Pool(SimSample \div 6 + 1), m3 \in Pool(SimSample \div 6 + 1)} ELSE {})

ReqSet(ms, ex) == LET r == Required([msgs |-> ms, exec |-> ex]) IN {r[i] : i \in DOMAIN r}

\* signer sets: exactly the required ones, and - when SignerSets = "all" - every single account alone (a foreign or missing signature)
SignerChoices(ms, ex) ==
    IF SignerSets = "exact" THEN {ReqSet(ms, ex)}
    ELSE {ReqSet(ms, ex)} \cup {{a} : a \in Accts}

ExecChoices(ms) == IF ExecOn /\ Len(ms) = 1 /\ ms[1].type \in CustomTypes THEN {"none"} \cup Accts ELSE {"none"}

\* tip: the optional AuthInfo.tip of the transaction envelope names an account ("none" = absent) and an amount; this chain has no tip handling, so
\* the field is inert: whoever is named there neither pays nor signs
Txs == UNION { UNION { {[msgs |-> ms, signers |-> sg, fee |-> f, exec |-> ex, fee2 |-> f2, tip |-> tp] : sg \in SignerChoices(ms, ex), f \in Fees, f2 \in Fees2, tp \in Tips}
                       : ex \in ExecChoices(ms) } : ms \in MsgSeqs }

MCDeliver(tx) ==
    /\ ndel < MaxDeliver
    /\ (FailKeep = 1 \/ Outcome(tx).result = "ok" \/ RandomElement(1..FailKeep) = 1
           \/ (SimSample > 0 /\ Len(tx.msgs) = 1 /\ tx.msgs[1] \in (DidCross \cup DidNear) /\ RandomElement(1..2) = 1))
    /\ Deliver(tx) /\ ndel' = ndel + 1 /\ HistNext /\ path' = Append(path, act')
MCEndBlock == height < MaxHeight /\ (BlockKeep = 1 \/ RandomElement(1..BlockKeep) = 1) /\ EndBlock /\ UNCHANGED ndel /\ HistNext /\ path' = Append(path, act')
MCBegin(m) == "BeginBlock" \in NextKinds /\ BeginBlock(m) /\ UNCHANGED ndel /\ HistNext /\ path' = Append(path, act')
MCRestart(m) == "RestartBegin" \in NextKinds /\ RestartBegin(m) /\ UNCHANGED ndel /\ HistNext /\ path' = Append(path, act')
MCExport(m) == "ExportImportBegin" \in NextKinds /\ ExportImportBegin(m) /\ UNCHANGED ndel /\ HistNext /\ path' = Append(path, act')

MCGov(n) == "GovSchedule" \in NextKinds /\ Cardinality(pending) < 2 /\ GovSchedule(n) /\ UNCHANGED ndel /\ HistNext /\ path' = Append(path, act')

\* the same MESSAGES once more in a fresh transaction (new account sequence, so it passes the ante handler and reaches the handlers again):
\* "any message that was accepted once is rejected whenever it is submitted again"
MCResubmit(i) == "Resubmit" \in NextKinds /\ ndel < MaxDeliver /\ (SimSample = 0 \/ RandomElement(1..3) = 1)
                 /\ Deliver(delivered[i].tx) /\ ndel' = ndel + 1 /\ HistNext /\ path' = Append(path, act')

MCNoise(k, tx) == "Noise" \in NextKinds /\ (SimSample = 0 \/ RandomElement(1..6) = 1) /\ Noise(k, tx) /\ UNCHANGED ndel /\ HistNext /\ path' = Append(path, act')

MCRedeliver(i) == "Redeliver" \in NextKinds /\ ndel < MaxDeliver /\ (FailKeep = 1 \/ RandomElement(1..FailKeep) = 1) /\ Redeliver(delivered[i], i) /\ ndel' = ndel + 1 /\ HistNext /\ path' = Append(path, act')

\* simulation only: keeps a behaviour going when the random filters above disabled everything else (dropped before replay)
MCNoop == SimSample > 0 /\ act' = [name |-> "Noop"] /\ UNCHANGED <<height, phase, custom, bank, grants, hist, ndel, path>>

Next ==
    \/ MCNoop
    \/ \E i \in DOMAIN delivered : MCRedeliver(i)
    \/ \E i \in DOMAIN delivered : MCResubmit(i)
    \/ \E k \in {"check", "recheck", "simulate"} : \E tx \in Txs : MCNoise(k, tx)
    \/ \E tx \in Txs : MCDeliver(tx)
    \/ MCEndBlock
    \/ \E n \in GovAmts : MCGov(n)
    \/ \E m \in Mints : MCBegin(m)
    \/ \E m \in Mints : MCRestart(m)
    \/ \E m \in Mints : MCExport(m)

Spec == Init /\ [][Next]_mcvars

\* state view for exhaustive checking: the last action is output only
StateView == <<height, phase, custom, bank, grants, acked, accepted, ndel>>

-----------------------------------------------------------------------------
(* the properties, as TLC checks them *)

P_C01 == [][C01_Step]_mcvars
P_C02 == [][C02_Step]_mcvars
P_C03 == [][C03_Step]_mcvars
P_C04 == [][C04_Step]_mcvars
P_C05 == [][C05_Step]_mcvars
P_C06 == [][C06_Step]_mcvars
P_C07 == [][C07_Step]_mcvars
P_C08 == [][C08_Step]_mcvars
P_C10 == [][C10_Step]_mcvars
P_C12 == [][C12_Step]_mcvars
P_C15 == [][C15_Step]_mcvars

I_C01 == C01_Dense /\ C01_Acked(SpecView)
I_C04 == C04_View(SpecView)
I_C05 == C05_View(SpecView)
I_C07 == C07_Inv /\ C07_Ended
I_Genesis == GenExportValid /\ GenRoundTrip     \* Genesis.tla: on every reachable state the export validates and import(export) is the identity
I_C11 == C11_Inv /\ C11_View(SpecView)
I_C12 == C12_Inv /\ C12_View(SpecView)
I_C13 == C13_Inv /\ C13_View(SpecView)

\* --- state-graph tours: every distinct state is printed once with one shortest path to it (listed as an INVARIANT, which TLC
\* evaluates exactly once per distinct state); the whole transaction alphabet is printed once. The harness re-creates each
\* state on the real application and fires the whole alphabet there.
TourDump == PrintT(<<"TOUR", ToJson(path)>>)
AlphabetDump == (path # << >>) \/ PrintT(<<"ALPHABET", ToJson(SetToSeq(Txs))>>)

\* rollback probes (tours): every ordered pair of messages followed by a message that always fails, as ONE transaction - whatever the
\* first two did is rolled back and must leave no trace (in the stores or in process memory) when the alphabet is fired afterwards
FailMsg == [type |-> "aol.DeleteWriter", owner |-> Relayer, topic |-> "t9", writer |-> Relayer]      \* topic t9 is never created
\* (an operator WITH a parameter: TLC evaluates parameterless constant-level definitions eagerly at start-up, and |Msgs|^2 can be a million)
ProbeTxsOf(ms) == {[msgs |-> <<m1, m2, FailMsg>>, signers |-> ReqSet(<<m1, m2, FailMsg>>, "none"), fee |-> 0, exec |-> "none"] : m1 \in ms, m2 \in ms}
ProbeDump == (path # << >>) \/ PrintT(<<"PROBES", ToJson(SetToSeq(ProbeTxsOf(Msgs)))>>)

\* non-vacuity witnesses (each must be VIOLATED when listed as an invariant: TLC then shows a behaviour reaching it)
W_TwoRecords == ~(\E k \in DOMAIN aolRecords : k[3] = 1)
W_Tombstone  == ~(\E d \in DOMAIN didReg : Status(didReg[d]) = "tombstone")
=============================================================================
