--------------------------- MODULE SnapshotTrace ---------------------------
(***************************************************************************)
(* Trace specification for the snapshot clause of C20.  The log is the     *)
(* merge, by a global atomic sequence number, of the events of one         *)
(* executor goroutine (CommitStart / CommitEnd, with the oracle digest of  *)
(* the committed height) and of several reader goroutines (QStart / QEnd   *)
(* with the requested height, the height the answer was served from and a  *)
(* digest of all custom query answers).  The internal steps CommitEffect   *)
(* and QRead are not logged; because the served height IS logged, every    *)
(* finished query is checked directly against Snapshot!IntervalRule.       *)
(***************************************************************************)
EXTENDS Integers, Sequences, FiniteSets, TLC, Json, IOUtils, TLCExt

VARIABLES l, started, ended, oracle, lo, fixed, run, mode

tvars == <<l, started, ended, oracle, lo, fixed, run, mode>>

Log == ndJsonDeserialize(IOEnv.TRACE_FILE)

Report(kind, id, rec) == PrintT(<<kind, id, run', rec.seq, l>>)
Chk(id, cond, rec) == IF cond THEN TRUE ELSE Report("VIOLATION", id, rec)

TraceInit == l = 1 /\ started = 0 /\ ended = 0 /\ oracle = <<>> /\ lo = <<>> /\ fixed = <<>> /\ run = "" /\ mode = ""

\* A digest is "<single-item answers>/<listings>".  Two answers for one height that differ ONLY in the listing part, on a node running with
\* IAVL fast-node storage (the default), are the recorded finding `iavl-fastnode-iteration` (DESIGN.md 0.3): an iterator over the latest saved
\* version walks the live fast-node index and can see entries of the block being committed.  The same runs are repeated with fast nodes
\* disabled (mode "nofast"): there ANY difference is a violation, so a listing defect of the custom modules cannot hide behind the finding.
Part(d, k) == LET i == CHOOSE j \in 1..Len(d) : SubSeq(d, j, j) = "/" IN IF k = 1 THEN SubSeq(d, 1, i - 1) ELSE SubSeq(d, i + 1, Len(d))
SameAnswer(rec, a, b) ==
    IF a = b THEN TRUE
    ELSE IF mode = "fastnode" /\ Part(a, 1) = Part(b, 1) THEN Report("VIOLATION", "C20:iavl-fastnode-iteration", rec)
    ELSE Report("VIOLATION", "C20", rec)

Put(f, k, v) == [x \in DOMAIN f \cup {k} |-> IF x = k THEN v ELSE f[x]]

TraceNext ==
    /\ l <= Len(Log)
    /\ l' = l + 1
    /\ LET rec == Log[l] IN
       CASE rec.ev = "start" ->
              /\ started' = rec.height /\ ended' = rec.height /\ oracle' = Put(<<>>, rec.height, rec.digest) /\ lo' = <<>> /\ fixed' = <<>> /\ run' = rec.run /\ mode' = rec.mode
         [] rec.ev = "CommitStart" ->
              /\ started' = rec.height /\ UNCHANGED <<ended, oracle, lo, fixed, run, mode>>
              /\ Chk("C20", rec.height = started + 1 /\ started = ended, rec)
         [] rec.ev = "CommitEnd" ->
              /\ ended' = rec.height /\ oracle' = Put(oracle, rec.height, rec.digest) /\ UNCHANGED <<started, lo, fixed, run, mode>>
              \* answers already served from this height (between the commit taking effect and returning) are the committed state as well
              /\ (rec.height \in DOMAIN fixed => SameAnswer(rec, fixed[rec.height], rec.digest))
         [] rec.ev = "QStart" ->
              /\ lo' = Put(lo, rec.reader, ended) /\ UNCHANGED <<started, ended, oracle, fixed, run, mode>>
         [] rec.ev = "QEnd" ->
              /\ UNCHANGED <<started, ended, oracle, lo, run, mode>>
              /\ Chk("C17", ~rec.panic, rec)
              /\ IF rec.err THEN fixed' = fixed
                 ELSE \* the interval rule of Snapshot.tla
                      /\ Chk("C20", rec.req # 0 => rec.served = rec.req, rec)
                      /\ Chk("C20", rec.req = 0 => lo[rec.reader] <= rec.served /\ rec.served <= started, rec)
                      \* the answer is the committed state of the height it was served from: if the oracle for that height is known
                      \* the digests must agree; in any case all answers for one height agree with each other (fixed height => identical answers)
                      /\ (rec.served \in DOMAIN oracle => SameAnswer(rec, oracle[rec.served], rec.digest))
                      /\ (rec.served \in DOMAIN fixed => SameAnswer(rec, fixed[rec.served], rec.digest))
                      /\ fixed' = IF rec.served \in DOMAIN fixed THEN fixed ELSE Put(fixed, rec.served, rec.digest)
         [] OTHER -> UNCHANGED <<started, ended, oracle, lo, fixed, run, mode>>

TraceSpec == TraceInit /\ [][TraceNext]_tvars

TraceAccepted == TLCGet("stats").diameter = Len(Log) + 1
=============================================================================
