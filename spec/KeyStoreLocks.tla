--------------------------- MODULE KeyStoreLocks ---------------------------
(***************************************************************************)
(* C20, key-store clause: concurrent Save / Load / LoadByAddress calls on  *)
(* one KeyStore cannot deadlock.                                           *)
(*                                                                         *)
(* The module models Go's sync.RWMutex - including the rule that matters:  *)
(* once a writer is waiting in Lock(), new RLock() calls block (writer     *)
(* preference) - and is parametric in the LOCK PROGRAM of every public     *)
(* operation path.  The programs are not written by hand: the harness      *)
(* MEASURES them on the real key store (hooks under build tag `verif`      *)
(* report each acquisition; the mutex is probed at each acquisition and    *)
(* when the call returns) and passes them in as the constant Programs.     *)
(*                                                                         *)
(* A program is a sequence of steps "RLock" | "RUnlock" | "Lock" |         *)
(* "Unlock"; a program may end while still holding a lock (a leak).        *)
(* Each process runs one of the programs; TLC explores every interleaving  *)
(* of Procs processes over every choice of programs.                       *)
(***************************************************************************)
EXTENDS Integers, Sequences, FiniteSets, TLC

CONSTANTS Programs,     \* [name -> sequence of steps], measured
          Procs         \* set of process ids, e.g. {1,2,3}

VARIABLES prog,      \* [Procs -> program name]
          pc,        \* [Procs -> index of the next step]
          readers,   \* number of read locks held
          writer,    \* process holding the write lock, or 0
          pending,   \* processes that have called Lock() and wait (they block new readers)
          trace      \* history: <<proc, step>> taken so far (kept out of the state view)

vars == <<prog, pc, readers, writer, pending, trace>>

Names == DOMAIN Programs

Init ==
    /\ prog \in [Procs -> Names]
    /\ pc = [p \in Procs |-> 1]
    /\ readers = 0 /\ writer = 0 /\ pending = {} /\ trace = <<>>

Finished(p) == pc[p] > Len(Programs[prog[p]])
StepOf(p)   == Programs[prog[p]][pc[p]]
Adv(p, what) == pc' = [pc EXCEPT ![p] = @ + 1] /\ trace' = Append(trace, <<p, what>>) /\ UNCHANGED prog

\* RLock: admitted only while no writer holds the lock and none is waiting
RLock(p) ==
    /\ ~Finished(p) /\ StepOf(p) = "RLock"
    /\ writer = 0 /\ pending = {}
    /\ readers' = readers + 1
    /\ Adv(p, "RLock") /\ UNCHANGED <<writer, pending>>

RUnlock(p) ==
    /\ ~Finished(p) /\ StepOf(p) = "RUnlock"
    /\ readers' = readers - 1
    /\ Adv(p, "RUnlock") /\ UNCHANGED <<writer, pending>>

\* Lock(), first half: announce (from now on new readers are refused); the program counter does not move
LockAnnounce(p) ==
    /\ ~Finished(p) /\ StepOf(p) = "Lock" /\ p \notin pending
    /\ pending' = pending \cup {p}
    /\ trace' = Append(trace, <<p, "Lock?">>)
    /\ UNCHANGED <<prog, pc, readers, writer>>

\* Lock(), second half: acquire when all readers are gone and no other writer holds it
LockAcquire(p) ==
    /\ ~Finished(p) /\ StepOf(p) = "Lock" /\ p \in pending
    /\ readers = 0 /\ writer = 0
    /\ writer' = p /\ pending' = pending \ {p}
    /\ Adv(p, "Lock") /\ UNCHANGED readers

Unlock(p) ==
    /\ ~Finished(p) /\ StepOf(p) = "Unlock" /\ writer = p
    /\ writer' = 0
    /\ Adv(p, "Unlock") /\ UNCHANGED <<readers, pending>>

Done == (\A p \in Procs : Finished(p)) /\ UNCHANGED vars

Next == Done \/ \E p \in Procs : RLock(p) \/ RUnlock(p) \/ LockAnnounce(p) \/ LockAcquire(p) \/ Unlock(p)

Spec == Init /\ [][Next]_vars

StateView == <<prog, pc, readers, writer, pending>>

\* mutual exclusion of the modelled mutex (sanity of the model itself)
MutexOk == (writer # 0 => readers = 0) /\ readers >= 0

\* no deadlock: while some call has not returned, some step is possible
Stuck == (\E p \in Procs : ~Finished(p))
         /\ \A p \in Procs : ~ENABLED (RLock(p) \/ RUnlock(p) \/ LockAnnounce(p) \/ LockAcquire(p) \/ Unlock(p))
NoDeadlock == ~Stuck

\* printed when stuck: the schedule that the harness replays on the real key store
DeadlockDump == ~Stuck \/ PrintT(<<"DEADLOCK", prog, trace>>)
=============================================================================
