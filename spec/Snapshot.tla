------------------------------ MODULE Snapshot ------------------------------
(***************************************************************************)
(* C20, snapshot clause: queries served while blocks are being executed    *)
(* return exactly the state of some committed height, never a half-applied *)
(* block; repeated queries at a fixed height return identical answers.     *)
(*                                                                         *)
(* One executor commits heights 1, 2, ...; a commit takes effect at an     *)
(* internal step between its start and its end.  Readers issue queries     *)
(* (start / internal read / end) for an explicit height or for "latest"    *)
(* (req = 0).  The versioned store is modelled as the function             *)
(* height -> content, where content of a height never changes after the    *)
(* commit took effect; the in-progress block lives in `working`.           *)
(*                                                                         *)
(* What a client can observe is: the height the answer was served from     *)
(* and the answer.  The theorem checked by TLC (IntervalRule) is what the  *)
(* trace specification then demands of the real application:               *)
(*   served = req for explicit heights; for latest-height queries          *)
(*   ended(at query start) <= served <= started(at query end);             *)
(*   answer = content(served).                                             *)
(***************************************************************************)
EXTENDS Integers, Sequences, FiniteSets, TLC

CONSTANTS Readers, MaxHeight

VARIABLES
    started,    \* number of commits begun
    effective,  \* number of commits that have taken effect (visible to new readers)
    ended,      \* number of commits that have returned
    working,    \* writes of the block in progress (never visible)
    q           \* [Readers -> query record]: phase, req, lo, served, answer

vars == <<started, effective, ended, working, q>>

Content(hh) == hh          \* committed content of a height (abstract: the height itself identifies it)
Idle == [phase |-> "idle", req |-> 0, lo |-> 0, served |-> 0, answer |-> 0]

Init == started = 0 /\ effective = 0 /\ ended = 0 /\ working = 0 /\ q = [r \in Readers |-> Idle]

Write       == started = ended /\ started < MaxHeight /\ working < 2 /\ working' = working + 1 /\ UNCHANGED <<started, effective, ended, q>>
CommitStart == started = ended /\ started < MaxHeight /\ started' = started + 1 /\ UNCHANGED <<effective, ended, working, q>>
CommitEffect == effective < started /\ effective' = started /\ working' = 0 /\ UNCHANGED <<started, ended, q>>
CommitEnd   == ended < started /\ effective = started /\ ended' = started /\ UNCHANGED <<started, effective, working, q>>

QStart(r, req) ==
    /\ q[r].phase = "idle" /\ req <= ended           \* a client can only ask for a height it has seen committed
    /\ q' = [q EXCEPT ![r] = [phase |-> "started", req |-> req, lo |-> ended, served |-> 0, answer |-> 0]]
    /\ UNCHANGED <<started, effective, ended, working>>

\* the read itself: a versioned, immutable branch of the committed store
QRead(r) ==
    /\ q[r].phase = "started"
    /\ LET hh == IF q[r].req = 0 THEN effective ELSE q[r].req IN
       q' = [q EXCEPT ![r] = [@ EXCEPT !.phase = "read", !.served = hh, !.answer = Content(hh)]]
    /\ UNCHANGED <<started, effective, ended, working>>

QEnd(r) ==
    /\ q[r].phase = "read"
    /\ q' = [q EXCEPT ![r] = [@ EXCEPT !.phase = "idle"]]
    /\ UNCHANGED <<started, effective, ended, working>>

Next == Write \/ CommitStart \/ CommitEffect \/ CommitEnd
        \/ \E r \in Readers : QRead(r) \/ QEnd(r) \/ \E req \in 0..MaxHeight : QStart(r, req)

Spec == Init /\ [][Next]_vars

\* what the trace specification demands of every finished query
IntervalRule ==
    \A r \in Readers : q[r].phase = "read" =>
        /\ q[r].req # 0 => q[r].served = q[r].req
        /\ q[r].req = 0 => q[r].lo <= q[r].served /\ q[r].served <= started
        /\ q[r].answer = Content(q[r].served)       \* a committed state, never the working set

TypeOk == effective <= started /\ ended <= effective /\ started <= ended + 1
=============================================================================
