-------------------------------- MODULE Node --------------------------------
(***************************************************************************)
(* One node process executing a fixed block history through the ABCI life  *)
(* cycle, with crashes at every possible point and restarts on the same    *)
(* database (C10), optionally with a software upgrade planned at a height  *)
(* (C19, dynamic part).                                                    *)
(*                                                                         *)
(* The application state is abstracted to the sequence of transactions     *)
(* applied: `done` is what the database holds (committed), `pend` what the *)
(* deliver branch holds.  The never-stopped twin is the function           *)
(* Twin(h) = all transactions of blocks 1..h.                              *)
(*                                                                         *)
(* TLC's job here is to enumerate the SCHEDULES (where to crash, how often)*)
(* exhaustively; each schedule is then executed on the real application    *)
(* and the observed trace is checked against this module (NodeTrace.tla).  *)
(***************************************************************************)
EXTENDS Integers, Sequences, FiniteSets, TLC

CONSTANTS
    BlockShapes,   \* set of block histories, each a sequence of block sizes, e.g. {<<2, 1, 2>>}: block i carries Blocks[i] transactions
    MaxCrashes,    \* bound on the number of crashes in a schedule
    UpgradeAts     \* set of heights at which the planned upgrade may run (0 = none)

VARIABLES
    Blocks,    \* the block history of this run (fixed after Init)
    UpgradeAt, \* the upgrade height of this run (fixed after Init)
    h,         \* last committed height
    phase,     \* "idle" | "begun" | "ended" | "down"
    k,         \* number of transactions of block h+1 delivered so far
    done,      \* committed application state: sequence of <<height, index>>
    pend,      \* uncommitted part (deliver branch)
    upgraded,  \* the upgrade handler has run and its effects are committed / pending
    pendUp,
    crashes,
    sched      \* history: the schedule taken so far (sequence of action names) - kept out of the state view

vars == <<Blocks, UpgradeAt, h, phase, k, done, pend, upgraded, pendUp, crashes, sched>>

RECURSIVE Twin(_)
Twin(n) == IF n = 0 THEN <<>> ELSE Twin(n - 1) \o [i \in 1..Blocks[n] |-> <<n, i>>]

Init ==
    /\ Blocks \in BlockShapes /\ UpgradeAt \in UpgradeAts
    /\ h = 0 /\ phase = "idle" /\ k = 0 /\ done = <<>> /\ pend = <<>>
    /\ upgraded = FALSE /\ pendUp = FALSE /\ crashes = 0 /\ sched = <<>>

Step(name) == sched' = Append(sched, name) /\ UNCHANGED <<Blocks, UpgradeAt>>

Begin ==
    /\ phase = "idle" /\ h < Len(Blocks)
    /\ phase' = "begun" /\ k' = 0 /\ pend' = <<>>
    /\ pendUp' = (UpgradeAt = h + 1)          \* x/upgrade BeginBlocker applies the plan at its height
    /\ Step("Begin")
    /\ UNCHANGED <<h, done, upgraded, crashes>>

Deliver ==
    /\ phase = "begun" /\ k < Blocks[h + 1]
    /\ k' = k + 1 /\ pend' = Append(pend, <<h + 1, k + 1>>)
    /\ Step("Deliver")
    /\ UNCHANGED <<h, phase, done, upgraded, pendUp, crashes>>

End ==
    /\ phase = "begun" /\ k = Blocks[h + 1]
    /\ phase' = "ended"
    /\ Step("End")
    /\ UNCHANGED <<h, k, done, pend, upgraded, pendUp, crashes>>

Commit ==
    /\ phase = "ended"
    /\ h' = h + 1 /\ done' = done \o pend /\ pend' = <<>> /\ phase' = "idle" /\ k' = 0
    /\ upgraded' = (upgraded \/ pendUp) /\ pendUp' = FALSE
    /\ Step("Commit")
    /\ UNCHANGED crashes

\* the process dies: everything that is not in the database is gone
Crash ==
    /\ phase # "down" /\ crashes < MaxCrashes
    /\ phase' = "down" /\ pend' = <<>> /\ k' = 0 /\ pendUp' = FALSE /\ crashes' = crashes + 1
    /\ Step("Crash")
    /\ UNCHANGED <<h, done, upgraded>>

Restart ==
    /\ phase = "down"
    /\ phase' = "idle"
    /\ Step("Restart")
    /\ UNCHANGED <<h, k, done, pend, upgraded, pendUp, crashes>>

Next == Begin \/ Deliver \/ End \/ Commit \/ Crash \/ Restart

Spec == Init /\ [][Next]_vars

StateView == <<Blocks, UpgradeAt, h, phase, k, done, pend, upgraded, pendUp, crashes>>

-----------------------------------------------------------------------------
(* C10: restart equivalence *)

\* the database always holds exactly what the never-stopped twin has committed at that height
CommittedIsTwin == done = Twin(h)

\* a restarted node resumes at the last committed height with exactly the committed state and nothing else
ResumeClean == phase \in {"down", "idle"} => pend = <<>> /\ k = 0

\* uncommitted work leaves no trace: whatever is pending belongs to block h+1 only
PendingIsNextBlock == \A i \in DOMAIN pend : pend[i][1] = h + 1

\* C19: the upgrade takes effect exactly at its height and survives every restart
UpgradeAtHeight == UpgradeAt # 0 => (upgraded <=> h >= UpgradeAt)

\* schedules: every complete run (all blocks committed) is printed once with its schedule
Finished == h = Len(Blocks) /\ phase = "idle"
ScheduleDump == ~Finished \/ PrintT(<<"SCHEDULE", Blocks, UpgradeAt, sched>>)
=============================================================================
