-------------------------------- MODULE Props --------------------------------
(***************************************************************************)
(* The listed properties C01..C13, C15 as TLA+ formulas over the variables *)
(* of Panacea.tla, two history variables and a "view" (the answers of the  *)
(* query handlers).  ONE source of truth:                                   *)
(*   - exhaustive model checking evaluates them with view = SpecView (the  *)
(*     specification's own query semantics) on every state / transition of *)
(*     the bounded model;                                                  *)
(*   - trace validation (Trace.tla) evaluates the very same operators on   *)
(*     the states and query answers OBSERVED from the real application.    *)
(* Step formulas (suffix _Step) are action-level: they read the unprimed   *)
(* and primed variables of one transition; act' is the action just taken.  *)
(*                                                                         *)
(* The formulas are written independently of the handler definitions: they *)
(* say what the statement says, not how the handlers achieve it.           *)
(***************************************************************************)
EXTENDS Genesis

VARIABLES
    acked,      \* history: records acknowledged so far [o,t,n,key,val,w,ts]
    accepted,   \* history: DID messages accepted so far (without the relaying account)
    delivered   \* history: every transaction delivered so far, in order: [tx, passed (got past the ante handler)]

hist == <<acked, accepted, delivered>>
allvars == <<vars, hist>>

IsDeliver(a)   == a.name = "Deliver"
DeliverOk(a)   == a.name = "Deliver" /\ a.result = "ok"
MsgIdx(a)      == DOMAIN a.tx.msgs

\* who a transaction's signatures speak for: the signers themselves, or - through authz - the granters of the executing grantee
Authorised(tx, x, type) ==
    IF tx.exec = "none" THEN x \in tx.signers
    ELSE tx.exec \in tx.signers /\ (x = tx.exec \/ <<x, tx.exec, type>> \in grants)

StripFrom(m) == [type |-> m.type, did |-> m.did, vm |-> m.vm, vmDid |-> m.vmDid, proof |-> m.proof,
                 doc |-> IF m.type = "did.Deactivate" THEN EmptyDoc ELSE m.doc]
IsDidMsg(m) == m.type \in {"did.Create", "did.Update", "did.Deactivate"}

\* history updates (the harness keeps the same two sets from the real responses)
NewAcks(a, h) == IF DeliverOk(a)
                 THEN {[o |-> a.tx.msgs[i].owner, t |-> a.tx.msgs[i].topic, n |-> a.offs[i], key |-> a.tx.msgs[i].key,
                        val |-> a.tx.msgs[i].val, w |-> a.tx.msgs[i].writer, ts |-> h] :
                        i \in {j \in MsgIdx(a) : a.tx.msgs[j].type = "aol.AddRecord"}}
                 ELSE {}
NewAccepted(a) == IF DeliverOk(a) THEN {StripFrom(a.tx.msgs[i]) : i \in {j \in MsgIdx(a) : IsDidMsg(a.tx.msgs[j])}} ELSE {}

NewDelivered(a) == IF IsDeliver(a) THEN <<[tx |-> a.tx, passed |-> a.result # "ante"]>> ELSE <<>>

HistNext == /\ acked' = acked \cup NewAcks(act', height)
            /\ accepted' = accepted \cup NewAccepted(act')
            /\ delivered' = delivered \o NewDelivered(act')

-----------------------------------------------------------------------------
(* C01 - AOL records are append-only, immutable, densely numbered *)

RecCount(recs, o, t) == Cardinality({k \in DOMAIN recs : k[1] = o /\ k[2] = t})

\* number of AddRecord messages for (o,t) among the first i-1 messages of the transaction
EarlierAppends(msgs, i, o, t) ==
    Cardinality({j \in 1..(i-1) : msgs[j].type = "aol.AddRecord" /\ msgs[j].owner = o /\ msgs[j].topic = t})

C01_Step ==
    \* nothing stored is ever changed or removed - by any action, including restart and export/import
    /\ \A k \in DOMAIN aolRecords : k \in DOMAIN aolRecords' /\ aolRecords'[k] = aolRecords[k]
    \* a record appears only as the result of an acknowledged append, at the acknowledged offset, with exactly the submitted content and the block time
    /\ \A k \in DOMAIN aolRecords' \ DOMAIN aolRecords :
          /\ DeliverOk(act')
          /\ \E i \in MsgIdx(act') : LET m == act'.tx.msgs[i] IN
                /\ m.type = "aol.AddRecord" /\ k = <<m.owner, m.topic, act'.offs[i]>>
                /\ aolRecords'[k] = [key |-> m.key, val |-> m.val, w |-> m.writer, ts |-> height]
    \* the reported offset equals the number of records the topic held before the append; every acknowledged append is stored
    /\ DeliverOk(act') =>
          \A i \in MsgIdx(act') : LET m == act'.tx.msgs[i] IN
              m.type = "aol.AddRecord" =>
                 /\ act'.offs[i] = RecCount(aolRecords, m.owner, m.topic) + EarlierAppends(act'.tx.msgs, i, m.owner, m.topic)
                 /\ <<m.owner, m.topic, act'.offs[i]>> \in DOMAIN aolRecords'

\* offsets of every topic are exactly 0..n-1
C01_Dense ==
    \A k \in DOMAIN aolRecords : \A j \in 0..(k[3]-1) : <<k[1], k[2], j>> \in DOMAIN aolRecords

\* every record ever acknowledged is still answered, unchanged, by the read operation
C01_Acked(v) ==
    \A r \in acked : [o |-> r.o, t |-> r.t, n |-> r.n, st |-> "ok", key |-> r.key, val |-> r.val, w |-> r.w, ts |-> r.ts] \in v.aolRecord

-----------------------------------------------------------------------------
(* C02 - AOL write authorisation *)

\* the writer list as it stands right before message i of a transaction whose messages all succeeded
RECURSIVE WritersBefore(_, _, _)
WritersBefore(msgs, i, w0) ==
    IF i <= 1 THEN w0
    ELSE LET w == WritersBefore(msgs, i - 1, w0)
             m == msgs[i - 1] IN
         IF m.type = "aol.AddWriter" THEN w \cup {<<m.owner, m.topic, m.writer>>}
         ELSE IF m.type = "aol.DeleteWriter" THEN w \ {<<m.owner, m.topic, m.writer>>}
         ELSE w

C02_Step ==
    \* an append succeeds only for an address that is in the writer list at that moment, and whose signature (or delegate) is on the transaction
    /\ DeliverOk(act') =>
          \A i \in MsgIdx(act') : LET m == act'.tx.msgs[i] IN
              m.type = "aol.AddRecord" =>
                 /\ <<m.owner, m.topic, m.writer>> \in WritersBefore(act'.tx.msgs, i, DOMAIN aolWriters)
                 /\ Authorised(act'.tx, m.writer, m.type)
    \* adding and removing take effect immediately: after an accepted transaction every writer entry it names is listed exactly if its last
    \* add/delete-writer message for that entry was an add
    /\ DeliverOk(act') =>
          LET final == WritersBefore(act'.tx.msgs, Len(act'.tx.msgs) + 1, DOMAIN aolWriters) IN
          \A i \in MsgIdx(act') : LET m == act'.tx.msgs[i] IN
              m.type \in {"aol.AddWriter", "aol.DeleteWriter"} =>
                  ((<<m.owner, m.topic, m.writer>> \in DOMAIN aolWriters') <=> (<<m.owner, m.topic, m.writer>> \in final))
    \* the writer list changes only through add/delete-writer messages authorised by the topic's owner
    /\ \A k \in (DOMAIN aolWriters \cup DOMAIN aolWriters') :
          (k \notin DOMAIN aolWriters \/ k \notin DOMAIN aolWriters' \/ aolWriters'[k] # aolWriters[k]) =>
             /\ DeliverOk(act')
             /\ \E i \in MsgIdx(act') : LET m == act'.tx.msgs[i] IN
                   /\ m.type \in {"aol.AddWriter", "aol.DeleteWriter"}
                   /\ k = <<m.owner, m.topic, m.writer>>
                   /\ Authorised(act'.tx, m.owner, m.type)
    \* a topic is only ever created under its signer's own address (and never removed)
    /\ \A k \in DOMAIN aolTopics : k \in DOMAIN aolTopics'
    /\ \A k \in DOMAIN aolTopics' \ DOMAIN aolTopics :
          /\ DeliverOk(act')
          /\ \E i \in MsgIdx(act') : LET m == act'.tx.msgs[i] IN
                m.type = "aol.CreateTopic" /\ k = <<m.owner, m.topic>> /\ Authorised(act'.tx, m.owner, m.type)
    \* every rejected attempt leaves topics, writers and records exactly as they were
    /\ (IsDeliver(act') /\ act'.result # "ok") =>
          /\ aolOwners' = aolOwners /\ aolTopics' = aolTopics /\ aolWriters' = aolWriters /\ aolRecords' = aolRecords
    \* nothing but a delivered transaction touches them at all
    /\ ~IsDeliver(act') =>
          /\ aolOwners' = aolOwners /\ aolTopics' = aolTopics /\ aolWriters' = aolWriters /\ aolRecords' = aolRecords

-----------------------------------------------------------------------------
(* C03 / C04 / C05 / C11 - DID *)

NoCell == [doc |-> EmptyDoc, seq |-> 0]
Cell(reg, d) == IF d \in DOMAIN reg THEN reg[d] ELSE NoCell
Status(c) == IF c.doc.id # "" THEN "active" ELSE IF c.seq = 0 THEN "absent" ELSE "tombstone"

\* keys a document lists under authentication with a secp256k1 type (referenced methods resolved in the document)
AuthKeysOf(doc) ==
    {a.key : a \in {x \in doc.auth : x.ded /\ Secp(x.type)}}
    \cup {v.key : v \in {y \in doc.vms : Secp(y.type) /\ \E a \in doc.auth : ~a.ded /\ a.n = y.n}}

ValidProof(p, authDoc, signData, seq) == p.key \in AuthKeysOf(authDoc) /\ p.data = signData /\ p.seq = seq

\* Follow the messages of an accepted transaction that address DID d, starting from cell c:
\* every one must carry a valid proof against the cell it meets; the result is the final cell, or "bad".
RECURSIVE DidChain(_, _, _, _)
DidChain(msgs, i, d, c) ==
    IF i > Len(msgs) THEN [okk |-> TRUE, c |-> c]
    ELSE LET m == msgs[i] IN
         IF ~IsDidMsg(m) \/ m.did # d THEN DidChain(msgs, i + 1, d, c)
         ELSE IF m.type = "did.Create" THEN
                 IF Status(c) = "absent" /\ ValidProof(m.proof, m.doc, m.doc, 0)
                 THEN DidChain(msgs, i + 1, d, [doc |-> m.doc, seq |-> 0]) ELSE [okk |-> FALSE, c |-> c]
         ELSE IF m.type = "did.Update" THEN
                 IF Status(c) = "active" /\ ValidProof(m.proof, c.doc, m.doc, c.seq)
                 THEN DidChain(msgs, i + 1, d, [doc |-> m.doc, seq |-> c.seq + 1]) ELSE [okk |-> FALSE, c |-> c]
         ELSE    IF Status(c) = "active" /\ ValidProof(m.proof, c.doc, DeactDoc(d), c.seq)
                 THEN DidChain(msgs, i + 1, d, [doc |-> EmptyDoc, seq |-> c.seq + 1]) ELSE [okk |-> FALSE, c |-> c]

DidTouched(a, d) == DeliverOk(a) /\ \E i \in MsgIdx(a) : IsDidMsg(a.tx.msgs[i]) /\ a.tx.msgs[i].did = d

AllDids == DOMAIN didReg \cup DOMAIN didReg'

\* C03: the stored document/sequence of a DID changes only by messages carrying a valid proof by a current authentication key
\* (the transaction's signers do not occur in this formula: the relaying account confers nothing)
C03_Step ==
    /\ \A d \in AllDids :
          Cell(didReg', d) # Cell(didReg, d) =>
             /\ DidTouched(act', d)
             /\ DidChain(act'.tx.msgs, 1, d, Cell(didReg, d)).okk
    \* an accepted DID message always carried a valid proof (even when it stored the same content again)
    /\ DeliverOk(act') => \A d \in {act'.tx.msgs[i].did : i \in {j \in MsgIdx(act') : IsDidMsg(act'.tx.msgs[j])}} :
             DidChain(act'.tx.msgs, 1, d, Cell(didReg, d)).okk

\* C04: sequence starts at 0, grows by exactly one per accepted update/deactivation, never otherwise; no accepted message is accepted again
\* the sequence number an ACCEPTED transaction leaves behind for d, whatever its proofs were: 0 after a create, one more per update/deactivation
RECURSIVE SeqAfter(_, _, _, _)
SeqAfter(msgs, i, d, n) ==
    IF i > Len(msgs) THEN n
    ELSE LET m == msgs[i] IN
         IF ~IsDidMsg(m) \/ m.did # d THEN SeqAfter(msgs, i + 1, d, n)
         ELSE IF m.type = "did.Create" THEN SeqAfter(msgs, i + 1, d, 0)
         ELSE SeqAfter(msgs, i + 1, d, n + 1)

C04_Step ==
    /\ \A d \in AllDids :
          IF DidTouched(act', d)
          THEN /\ LET r == DidChain(act'.tx.msgs, 1, d, Cell(didReg, d)) IN r.okk => Cell(didReg', d) = r.c
               /\ Cell(didReg', d).seq = SeqAfter(act'.tx.msgs, 1, d, Cell(didReg, d).seq)
          ELSE Cell(didReg', d).seq = Cell(didReg, d).seq
    /\ DeliverOk(act') => \A i \in MsgIdx(act') : IsDidMsg(act'.tx.msgs[i]) => StripFrom(act'.tx.msgs[i]) \notin accepted
    \* ... nor when the identical outer transaction bytes are delivered again
    /\ act'.name = "Redeliver" => (act'.result # "ok" /\ didReg' = didReg)

\* the sequence returned by the read operation is the one the next proof must be made over
C04_View(v) ==
    \A e \in v.did : e.st = "ok" => e.d \in DOMAIN didReg /\ e.seq = didReg[e.d].seq /\ e.doc = didReg[e.d].doc

\* C05: absent -> active -> tombstone, tombstone absorbing, create only from absent
C05_Step ==
    \A d \in AllDids :
        LET a == Status(Cell(didReg, d))
            b == Status(Cell(didReg', d)) IN
        /\ a = "tombstone" => Cell(didReg', d) = Cell(didReg, d)
        /\ a = "active"    => b \in {"active", "tombstone"}
        /\ (a = "active" /\ Cell(didReg', d) # Cell(didReg, d)) =>
              (IsDeliver(act') /\ \E i \in MsgIdx(act') : act'.tx.msgs[i].type \in {"did.Update", "did.Deactivate"} /\ act'.tx.msgs[i].did = d)
        /\ a = "absent"    => b \in {"absent", "active"} \/ DidTouched(act', d)

C05_View(v) ==
    \A e \in v.did :
        /\ Status(Cell(didReg, e.d)) = "tombstone" => e.st = "notfound" /\ e.msg = "DID deactivated"
        /\ Status(Cell(didReg, e.d)) = "absent"    => e.st = "notfound"
        /\ Status(Cell(didReg, e.d)) = "active"    => e.st = "ok"

\* C11: an active entry under d describes d
C11_Inv == \A d \in DOMAIN didReg : Status(didReg[d]) = "active" => didReg[d].doc.id = d
C11_View(v) == \A e \in v.did : e.st = "ok" => e.doc.id = e.d /\ e.named

-----------------------------------------------------------------------------
(* C06 - PNFT authorisation *)

IsDenomMsg(m) == m.type \in {"pnft.CreateDenom", "pnft.UpdateDenom", "pnft.DeleteDenom", "pnft.TransferDenom"}
IsTokenMsg(m) == m.type \in {"pnft.Mint", "pnft.Transfer", "pnft.Burn"}

\* accounts that own denom id at some point while the (fully successful) transaction runs
\* who may have become the owner by the time message i runs: the owner before the transaction, or a receiver / creator named by an EARLIER message
\* of the same transaction (never by message i itself: "transfer to myself" confers nothing)
DenomOwnersAlong(msgs, i, id, pre) ==
    pre \cup {msgs[j].to : j \in {x \in DOMAIN msgs : x < i /\ msgs[x].type = "pnft.TransferDenom" /\ msgs[x].id = id}}
        \cup {msgs[j].actor : j \in {x \in DOMAIN msgs : x < i /\ msgs[x].type = "pnft.CreateDenom" /\ msgs[x].id = id}}
TokenOwnersAlong(msgs, i, k, pre) ==
    pre \cup {msgs[j].to : j \in {x \in DOMAIN msgs : x < i /\ msgs[x].type = "pnft.Transfer" /\ msgs[x].denom = k[1] /\ msgs[x].id = k[2]}}
        \cup {msgs[j].actor : j \in {x \in DOMAIN msgs : x < i /\ msgs[x].type = "pnft.Mint" /\ msgs[x].denom = k[1] /\ msgs[x].id = k[2]}}

PreDenomOwner(id) == IF id \in DOMAIN pnDenoms THEN {pnDenoms[id].owner} ELSE {}
PreTokenOwner(k)  == IF k \in DOMAIN pnTokens THEN {pnTokens[k].owner} ELSE {}

C06_Step ==
    \* a denom is created, updated, deleted or handed over only by an authorised message of its (then) owner
    /\ \A id \in DOMAIN pnDenoms \cup DOMAIN pnDenoms' :
          (id \notin DOMAIN pnDenoms \/ id \notin DOMAIN pnDenoms' \/ pnDenoms'[id] # pnDenoms[id]) =>
             /\ DeliverOk(act')
             /\ \E i \in MsgIdx(act') : LET m == act'.tx.msgs[i] IN
                   /\ IsDenomMsg(m) /\ m.id = id
                   /\ Authorised(act'.tx, m.actor, m.type)
                   /\ (m.type # "pnft.CreateDenom" => m.actor \in DenomOwnersAlong(act'.tx.msgs, i, id, PreDenomOwner(id)))
    \* ownership of a denom changes only through a hand-over by the owner
    /\ \A id \in DOMAIN pnDenoms \cap DOMAIN pnDenoms' :
          pnDenoms'[id].owner # pnDenoms[id].owner =>
             (IsDeliver(act') /\ \E i \in MsgIdx(act') : LET m == act'.tx.msgs[i] IN
                 m.type \in {"pnft.TransferDenom", "pnft.DeleteDenom"} /\ m.id = id)
    \* tokens are minted only by the denom's owner, transferred or burned only by their owner
    /\ \A k \in DOMAIN pnTokens \cup DOMAIN pnTokens' :
          (k \notin DOMAIN pnTokens \/ k \notin DOMAIN pnTokens' \/ pnTokens'[k] # pnTokens[k]) =>
             /\ DeliverOk(act')
             /\ \E i \in MsgIdx(act') : LET m == act'.tx.msgs[i] IN
                   /\ IsTokenMsg(m) /\ <<m.denom, m.id>> = k
                   /\ Authorised(act'.tx, m.actor, m.type)
                   /\ IF m.type = "pnft.Mint"
                      THEN m.actor \in DenomOwnersAlong(act'.tx.msgs, i, k[1], PreDenomOwner(k[1]))
                      ELSE m.actor \in TokenOwnersAlong(act'.tx.msgs, i, k, PreTokenOwner(k))
    \* every accepted token/denom message was authorised by the actor it names
    /\ DeliverOk(act') => \A i \in MsgIdx(act') : LET m == act'.tx.msgs[i] IN
          (IsDenomMsg(m) \/ IsTokenMsg(m)) => Authorised(act'.tx, m.actor, m.type)
    \* every refused request leaves all denoms, tokens and ownerships unchanged
    /\ (~DeliverOk(act')) => /\ pnDenoms' = pnDenoms /\ pnTokens' = pnTokens /\ pnIndex' = pnIndex /\ NormSupply(pnSupply') = NormSupply(pnSupply)

-----------------------------------------------------------------------------
(* C12 - PNFT tokens unique, immutable, isolated, consistently indexed *)

TokMeta(t) == [name |-> t.name, desc |-> t.desc, uri |-> t.uri, hash |-> t.hash, data |-> t.data, creator |-> t.creator, at |-> t.at]

C12_Step ==
    \* a token's name, description, uri, hash, data, creator and creation time never change after minting (only the owner does)
    \A k \in DOMAIN pnTokens \cap DOMAIN pnTokens' :
        TokMeta(pnTokens'[k]) # TokMeta(pnTokens[k]) =>
            \* unless it was burned and minted anew inside one transaction
            /\ DeliverOk(act')
            /\ \E i \in MsgIdx(act') : act'.tx.msgs[i].type = "pnft.Burn" /\ <<act'.tx.msgs[i].denom, act'.tx.msgs[i].id>> = k

C12_Inv ==
    \* every existing token belongs to an existing denom
    /\ \A k \in DOMAIN pnTokens : k[1] \in DOMAIN pnDenoms
    \* owner index and supply counter agree with the tokens
    /\ pnIndex = {<<pnTokens[k].owner, k[1], k[2]>> : k \in DOMAIN pnTokens}
    /\ \A d \in DOMAIN pnSupply \cup {k[1] : k \in DOMAIN pnTokens} :
          Get(pnSupply, d, 0) = Cardinality({k \in DOMAIN pnTokens : k[1] = d})

TokView(k, t) == [denom |-> k[1], id |-> k[2], name |-> t.name, desc |-> t.desc, uri |-> t.uri, hash |-> t.hash, data |-> t.data,
                  creator |-> t.creator, owner |-> t.owner, at |-> t.at]
ItemSet(items) == {items[i] : i \in DOMAIN items}

C12_View(v) ==
    \* single-item view: an answer to (qd,qi) is the token stored under exactly that pair (no aliasing)
    /\ \A e \in v.pnToken : <<e.qd, e.qi>> \in DOMAIN pnTokens /\ e.tok = TokView(<<e.qd, e.qi>>, pnTokens[<<e.qd, e.qi>>])
    /\ \A k \in DOMAIN pnTokens : (\E e \in v.pnTokens : e.q = k[1]) => \E e \in v.pnToken : <<e.qd, e.qi>> = k
    \* tokens of a denom: exactly the matching items, once
    /\ \A e \in v.pnTokens :
          /\ Len(e.items) = Cardinality(ItemSet(e.items))
          /\ ItemSet(e.items) = {TokView(k, pnTokens[k]) : k \in {x \in DOMAIN pnTokens : x[1] = e.q}}
    \* tokens of a denom held by an owner (only non-empty answers are listed)
    /\ \A e \in v.pnByOwner :
          /\ Len(e.items) = Cardinality(ItemSet(e.items))
          /\ ItemSet(e.items) = {TokView(k, pnTokens[k]) : k \in {x \in DOMAIN pnTokens : x[1] = e.q /\ pnTokens[x].owner = e.o}}
    /\ \A k \in DOMAIN pnTokens : (\E e \in v.pnTokens : e.q = k[1]) => \E e \in v.pnByOwner : e.q = k[1] /\ e.o = pnTokens[k].owner
    \* denoms by owner: exactly the denoms whose owner it is, once
    /\ \A e \in v.pnDenomsByOwner :
          /\ Len(e.ids) = Cardinality(ItemSet(e.ids))
          /\ ItemSet(e.ids) = {d \in DOMAIN pnDenoms : pnDenoms[d].owner = e.o}
    \* single denom view and the paged listing of all denoms
    /\ \A e \in v.pnDenom : e.q \in DOMAIN pnDenoms /\ e.den = pnDenoms[e.q] /\ e.id = e.q
    /\ \A l \in v.pnDenomLists : Len(l) = Cardinality(ItemSet(l)) /\ ItemSet(l) = DOMAIN pnDenoms

-----------------------------------------------------------------------------
(* C13 - AOL counters and listings equal the real contents *)

C13_Inv ==
    /\ \A o \in DOMAIN aolOwners \cup {k[1] : k \in DOMAIN aolTopics} :
          Get(aolOwners, o, 0) = Cardinality({k \in DOMAIN aolTopics : k[1] = o})
    /\ \A k \in DOMAIN aolTopics :
          /\ aolTopics[k].nw = Cardinality({w \in DOMAIN aolWriters : w[1] = k[1] /\ w[2] = k[2]})
          /\ aolTopics[k].nr = RecCount(aolRecords, k[1], k[2])
    /\ \A w \in DOMAIN aolWriters : <<w[1], w[2]>> \in DOMAIN aolTopics
    /\ \A r \in DOMAIN aolRecords : <<r[1], r[2]>> \in DOMAIN aolTopics

C13_View(v) ==
    \* reported counters
    /\ \A e \in v.aolTopic :
          IF <<e.o, e.t>> \in DOMAIN aolTopics
          THEN /\ e.st = "ok" /\ e.desc = aolTopics[<<e.o, e.t>>].desc
               /\ e.nw = Cardinality({w \in DOMAIN aolWriters : w[1] = e.o /\ w[2] = e.t})
               /\ e.nr = RecCount(aolRecords, e.o, e.t)
          ELSE e.st = "notfound"
    \* single writer view
    /\ \A e \in v.aolWriter : /\ e.st = "ok" /\ <<e.o, e.t, e.w>> \in DOMAIN aolWriters
                              /\ [mon |-> e.mon, desc |-> e.desc, ts |-> e.ts] = aolWriters[<<e.o, e.t, e.w>>]
    /\ \A k \in DOMAIN aolWriters : (\E e \in v.aolTopic : e.o = k[1] /\ e.t = k[2]) => \E e \in v.aolWriter : <<e.o, e.t, e.w>> = k
    \* paging through the topics of an owner: every request shape yields exactly those items, each once
    /\ \A e \in v.aolTopics :
          /\ e.errs = {}
          /\ \A l \in e.lists : Len(l) = Cardinality(ItemSet(l)) /\ ItemSet(l) = {k[2] : k \in {x \in DOMAIN aolTopics : x[1] = e.o}}
          /\ \A n \in e.totals : n = Cardinality({x \in DOMAIN aolTopics : x[1] = e.o})
    /\ \A e \in v.aolWriters :
          /\ e.errs = {}
          /\ \A l \in e.lists : Len(l) = Cardinality(ItemSet(l)) /\ ItemSet(l) = {k[3] : k \in {x \in DOMAIN aolWriters : x[1] = e.o /\ x[2] = e.t}}
          /\ \A n \in e.totals : n = Cardinality({x \in DOMAIN aolWriters : x[1] = e.o /\ x[2] = e.t})

-----------------------------------------------------------------------------
(* C15 - custom transactions move only the fee, from the payer *)

AllCustom(tx) == \A i \in DOMAIN tx.msgs : tx.msgs[i].type \in CustomTypes

\* the fee payer as the STATEMENT defines it: the first signer; for an add-record with a named fee payer, that fee payer
StatedPayer(tx) ==
    IF tx.exec # "none" THEN tx.exec
    ELSE LET m == tx.msgs[1] IN
         IF m.type = "aol.AddRecord" THEN (IF m.feePayer # "none" THEN m.feePayer ELSE m.writer)
         ELSE IF m.type \in {"aol.CreateTopic", "aol.AddWriter", "aol.DeleteWriter"} THEN m.owner
         ELSE IF IsDidMsg(m) THEN m.from
         ELSE m.actor

C15_Step ==
    /\ (IsDeliver(act') /\ AllCustom(act'.tx)) =>
        LET tx == act'.tx
            p == StatedPayer(tx) IN
        /\ supply' = supply /\ rest' = rest /\ vest' = vest
        /\ IF act'.result = "ante"
           THEN bal' = bal
           \* the WHOLE declared fee (every coin of it) moves from the payer to the fee collector, and nothing else moves
           ELSE \A a \in Tracked : \A d \in Denoms :
                   bal'[a][d] = bal[a][d] - (IF a = p THEN FeeOf(tx, d) ELSE 0)
                                          + (IF a = FeeColl THEN FeeOf(tx, d) ELSE 0)
        \* if any message fails, none of the transaction's messages has any effect on AOL, DID or PNFT state
        /\ act'.result # "ok" => custom' = custom
    \* a re-delivered copy of an already processed transaction costs nobody anything and changes nothing
    /\ act'.name = "Redeliver" => (bal' = bal /\ supply' = supply /\ custom' = custom)

-----------------------------------------------------------------------------
(* C07 - the burn address is a sink *)

Spend(a, d) == SpendableAt(CS, a, d, height)

C07_Step ==
    act'.name = "EndBlock" =>
        /\ ~act'.halted /\ act'.invOk
        /\ \A d \in Denoms :
              /\ bal'[BurnAcct][d] = bal[BurnAcct][d] - Spend(BurnAcct, d)     \* spendable balance of the burn address is zero afterwards
              \* supply shrinks by exactly what was spendable there, plus what reached the address inside this very EndBlock (governance spends)
              /\ supply'[d] = supply[d] - Spend(BurnAcct, d) - Arrives(d)
              /\ \A a \in Tracked \ {BurnAcct} : bal'[a][d] = bal[a][d]          \* nobody else's balance changes
              /\ rest'[d] = rest[d] - Arrives(d)

\* the bank-wide accounting identity
C07_Inv ==
    \A d \in Denoms :
        LET S[as \in SUBSET Tracked] == IF as = {} THEN 0 ELSE LET a == CHOOSE x \in as : TRUE IN bal[a][d] + S[as \ {a}]
        IN S[Tracked] + rest[d] = supply[d]

\* after EndBlock nothing is spendable at the burn address (state form, evaluated in phase "ended")
C07_Ended == phase = "ended" => \A d \in Denoms : SpendableAt(CS, BurnAcct, d, height) = 0

-----------------------------------------------------------------------------
(* C08 - genesis export/import reproduces the custom-module state *)

C08_Step ==
    act'.name = "ExportImportBegin" =>
        /\ act'.exportOk /\ act'.importOk /\ act'.validateOk
        /\ act'.exportTwiceEqual /\ act'.reExportEqual /\ act'.viewsEqual
        \* the raw stores are reproduced as well (a supply counter of zero and an absent one are the same thing)
        /\ <<aolOwners', aolTopics', aolWriters', aolRecords', didReg', pnDenoms', pnTokens', pnIndex', NormSupply(pnSupply')>>
             = <<aolOwners, aolTopics, aolWriters, aolRecords, didReg, pnDenoms, pnTokens, pnIndex, NormSupply(pnSupply)>>

\* restart: committed state survives (the chain-level half of C10; crash points are in Node.tla)
C10_Step ==
    act'.name = "RestartBegin" => act'.sameHash /\ custom' = custom

-----------------------------------------------------------------------------
(* The specification's own query semantics: what every query answers in a state.  *)
(* Used as the view in exhaustive model checking, and compared with the observed  *)
(* answers in trace validation.                                                    *)

CONSTANTS ViewTopics, ViewDids, ViewDenoms, ViewTokens    \* names the queries are asked for

SetToSeq(S) == LET f[s \in SUBSET S] == IF s = {} THEN <<>> ELSE LET x == CHOOSE y \in s : TRUE IN <<x>> \o f[s \ {x}] IN f[S]

SpecView ==
    [ aolRecord |-> {[o |-> r.o, t |-> r.t, n |-> r.n, st |-> "ok", key |-> aolRecords[<<r.o, r.t, r.n>>].key, val |-> aolRecords[<<r.o, r.t, r.n>>].val,
                      w |-> aolRecords[<<r.o, r.t, r.n>>].w, ts |-> aolRecords[<<r.o, r.t, r.n>>].ts] :
                      r \in {x \in acked : <<x.o, x.t, x.n>> \in DOMAIN aolRecords}},
      aolTopic  |-> {IF <<o, t>> \in DOMAIN aolTopics
                     THEN [o |-> o, t |-> t, st |-> "ok", desc |-> aolTopics[<<o, t>>].desc, nw |-> aolTopics[<<o, t>>].nw, nr |-> aolTopics[<<o, t>>].nr]
                     ELSE [o |-> o, t |-> t, st |-> "notfound", desc |-> "", nw |-> 0, nr |-> 0] : o \in Accts, t \in ViewTopics},
      aolWriter |-> {[o |-> k[1], t |-> k[2], w |-> k[3], st |-> "ok", mon |-> aolWriters[k].mon, desc |-> aolWriters[k].desc, ts |-> aolWriters[k].ts] :
                      k \in {x \in DOMAIN aolWriters : x[2] \in ViewTopics}},
      aolTopics |-> {[o |-> o, lists |-> {SetToSeq({k[2] : k \in {x \in DOMAIN aolTopics : x[1] = o}})},
                      totals |-> {Cardinality({x \in DOMAIN aolTopics : x[1] = o})}, errs |-> {}] : o \in Accts},
      aolWriters |-> {[o |-> o, t |-> t, lists |-> {SetToSeq({k[3] : k \in {x \in DOMAIN aolWriters : x[1] = o /\ x[2] = t}})},
                       totals |-> {Cardinality({x \in DOMAIN aolWriters : x[1] = o /\ x[2] = t})}, errs |-> {}] : o \in Accts, t \in ViewTopics},
      did |-> {LET c == Cell(didReg, d) IN
               IF Status(c) = "active" THEN [d |-> d, st |-> "ok", msg |-> "", doc |-> c.doc, seq |-> c.seq, named |-> TRUE]
               ELSE [d |-> d, st |-> "notfound", msg |-> IF Status(c) = "tombstone" THEN "DID deactivated" ELSE "DID not found",
                     doc |-> EmptyDoc, seq |-> 0, named |-> TRUE] : d \in ViewDids},
      pnToken |-> {[qd |-> k[1], qi |-> k[2], tok |-> TokView(k, pnTokens[k])] : k \in {x \in DOMAIN pnTokens : x[1] \in ViewDenoms /\ x[2] \in ViewTokens}},
      pnTokens |-> {[q |-> d, items |-> SetToSeq({TokView(k, pnTokens[k]) : k \in {x \in DOMAIN pnTokens : x[1] = d}})] : d \in ViewDenoms},
      pnByOwner |-> {[q |-> k[1], o |-> pnTokens[k].owner,
                      items |-> SetToSeq({TokView(j, pnTokens[j]) : j \in {x \in DOMAIN pnTokens : x[1] = k[1] /\ pnTokens[x].owner = pnTokens[k].owner}})] :
                      k \in {x \in DOMAIN pnTokens : x[1] \in ViewDenoms}},
      pnDenomsByOwner |-> {[o |-> o, ids |-> SetToSeq({d \in DOMAIN pnDenoms : pnDenoms[d].owner = o})] : o \in Accts},
      pnDenom |-> {[q |-> d, id |-> d, den |-> pnDenoms[d]] : d \in DOMAIN pnDenoms \cap ViewDenoms},
      pnDenomLists |-> {SetToSeq(DOMAIN pnDenoms)} ]

\* all view-dependent properties, for one view
ViewProps(v) == C01_Acked(v) /\ C04_View(v) /\ C05_View(v) /\ C11_View(v) /\ C12_View(v) /\ C13_View(v)

=============================================================================
