------------------------------- MODULE Genesis -------------------------------
(***************************************************************************)
(* x/aol/genesis.go, x/did/genesis.go and x/pnft/genesis.go transcribed:   *)
(* what ExportGenesis writes for the state held in Panacea's variables,    *)
(* what the modules' genesis validation accepts, and what InitGenesis      *)
(* makes of a genesis value.  Written in the shape of the Go code:         *)
(*                                                                         *)
(*   aol   four maps keyed by compkey.EncodeToString(key, "/") - the       *)
(*         components' string forms joined with the separator; import      *)
(*         decodes the string back (MustDecodeFromString) and Set*s.       *)
(*   did   one map  did -> DIDDocumentWithSeq  (tombstones included);      *)
(*         import is SetDIDDocument per entry, whatever the entry says.    *)
(*   pnft  the list of all denoms and, per exported denom, its tokens with *)
(*         owner, creator and creation time; import saves the denoms and   *)
(*         re-mints every token to its exported owner (the x/nft owner     *)
(*         index and the per-class supply counter are REBUILT, not copied).*)
(*                                                                         *)
(* Used twice: (1) TLC checks on every reachable state of MC.tla that the  *)
(* export validates and that import(export(state)) = state (the supply     *)
(* counter up to zero = absent); (2) Trace.tla compares the REAL exported  *)
(* genesis, parsed by the harness, with Gen* of the observed state at      *)
(* every export step (conformance of the export itself, not only of the    *)
(* round trip).                                                            *)
(***************************************************************************)
EXTENDS Panacea

\* A key string is modelled by the sequence of its "/"-separated parts.  Account addresses (bech32), decimal offsets and the published
\* topic alphabet contain no "/"; "ts" is the alphabet's name for the topic "a/b", which only a generator deviation ever proposes.
SlashParts(c) == IF c = "ts" THEN <<"a", "b">> ELSE <<c>>
RECURSIVE KeyStr(_)
KeyStr(cs) == IF cs = <<>> THEN <<>> ELSE SlashParts(Head(cs)) \o KeyStr(Tail(cs))

\* compkey.DecodeFromString: split on "/", the number of parts must be the number of components
DecodeStr(k, n) == IF Len(k) = n THEN k ELSE <<"error">>
Decodes(k, n) == Len(k) = n

Offsets == 0..64
OffsetOf(s) == IF \E n \in Offsets : ToString(n) = s THEN CHOOSE n \in Offsets : ToString(n) = s ELSE -1

\* a Go map built by inserting entries: one value per key string
MapOf(S) == [k \in {e.k : e \in S} |-> (CHOOSE e \in S : e.k = k).v]

-----------------------------------------------------------------------------
(* ExportGenesis *)

GenAolOwners  == {[k |-> KeyStr(<<o>>), v |-> aolOwners[o]] : o \in DOMAIN aolOwners}
GenAolTopics  == {[k |-> KeyStr(<<x[1], x[2]>>), v |-> aolTopics[x]] : x \in DOMAIN aolTopics}
GenAolWriters == {[k |-> KeyStr(<<x[1], x[2], x[3]>>), v |-> aolWriters[x]] : x \in DOMAIN aolWriters}
GenAolRecords == {[k |-> KeyStr(<<x[1], x[2], ToString(x[3])>>), v |-> aolRecords[x]] : x \in DOMAIN aolRecords}

GenDid == {[k |-> d, v |-> didReg[d]] : d \in DOMAIN didReg}           \* ListDIDs + GetDIDDocument: every stored entry, tombstones too

GenDenoms == {[id |-> i, v |-> pnDenoms[i]] : i \in DOMAIN pnDenoms}     \* GetAllDenoms
GenPnfts  == {[denom |-> x[1], id |-> x[2], v |-> pnTokens[x]] : x \in {y \in DOMAIN pnTokens : y[1] \in DOMAIN pnDenoms}}   \* per exported denom

Gen == [aolOwners |-> MapOf(GenAolOwners), aolTopics |-> MapOf(GenAolTopics), aolWriters |-> MapOf(GenAolWriters), aolRecords |-> MapOf(GenAolRecords),
        did |-> MapOf(GenDid), denoms |-> GenDenoms, pnfts |-> GenPnfts]

-----------------------------------------------------------------------------
(* genesis validation (GenesisState.Validate / ValidateBasic) - only what depends on the abstract state *)

GenValid(g) ==
    /\ \A k \in DOMAIN g.aolOwners  : Decodes(k, 1)
    /\ \A k \in DOMAIN g.aolTopics  : Decodes(k, 2)
    /\ \A k \in DOMAIN g.aolWriters : Decodes(k, 3)
    /\ \A k \in DOMAIN g.aolRecords : Decodes(k, 3) /\ OffsetOf(k[3]) >= 0
    \* did: the key is a well-formed DID (all names of the alphabet are) and Document.Valid(): an empty document (tombstone) is valid
    /\ \A k \in DOMAIN g.did : g.did[k].doc.id = "" \/ g.did[k].doc.vms # {}
    \* pnft: denom and token ids, names, owners present (guaranteed by the handlers that stored them)
    /\ \A e \in g.denoms : e.id # "" /\ e.v.owner # ""
    /\ \A e \in g.pnfts : e.id # "" /\ e.denom # "" /\ e.v.owner # ""

-----------------------------------------------------------------------------
(* InitGenesis on empty stores *)

ImpAolOwners(g)  == [o \in {DecodeStr(k, 1)[1] : k \in DOMAIN g.aolOwners} |-> g.aolOwners[CHOOSE k \in DOMAIN g.aolOwners : DecodeStr(k, 1)[1] = o]]
ImpAolTopics(g)  == [x \in {<<DecodeStr(k, 2)[1], DecodeStr(k, 2)[2]>> : k \in DOMAIN g.aolTopics} |->
                        g.aolTopics[CHOOSE k \in DOMAIN g.aolTopics : <<DecodeStr(k, 2)[1], DecodeStr(k, 2)[2]>> = x]]
ImpAolWriters(g) == [x \in {<<DecodeStr(k, 3)[1], DecodeStr(k, 3)[2], DecodeStr(k, 3)[3]>> : k \in DOMAIN g.aolWriters} |->
                        g.aolWriters[CHOOSE k \in DOMAIN g.aolWriters : <<DecodeStr(k, 3)[1], DecodeStr(k, 3)[2], DecodeStr(k, 3)[3]>> = x]]
ImpAolRecords(g) == [x \in {<<DecodeStr(k, 3)[1], DecodeStr(k, 3)[2], OffsetOf(DecodeStr(k, 3)[3])>> : k \in DOMAIN g.aolRecords} |->
                        g.aolRecords[CHOOSE k \in DOMAIN g.aolRecords : <<DecodeStr(k, 3)[1], DecodeStr(k, 3)[2], OffsetOf(DecodeStr(k, 3)[3])>> = x]]

ImpDid(g) == [d \in DOMAIN g.did |-> g.did[d]]

ImpDenoms(g) == [i \in {e.id : e \in g.denoms} |-> (CHOOSE e \in g.denoms : e.id = i).v]                       \* SaveDenom
ImpTokens(g) == [x \in {<<e.denom, e.id>> : e \in g.pnfts} |-> (CHOOSE e \in g.pnfts : <<e.denom, e.id>> = x).v]   \* ImportPNFT: mint to the exported owner
ImpIndex(g)  == {<<e.v.owner, e.denom, e.id>> : e \in g.pnfts}
ImpSupply(g) == [d \in {e.denom : e \in g.pnfts} |-> Cardinality({e \in g.pnfts : e.denom = d})]

Imported(g) == <<ImpAolOwners(g), ImpAolTopics(g), ImpAolWriters(g), ImpAolRecords(g), ImpDid(g), ImpDenoms(g), ImpTokens(g), ImpIndex(g), ImpSupply(g)>>

\* what the TLC invariant states for every reachable state
GenExportValid == GenValid(Gen)
GenRoundTrip ==
    Imported(Gen) = <<aolOwners, aolTopics, aolWriters, aolRecords, didReg, pnDenoms, pnTokens, pnIndex, NormSupply(pnSupply)>>
=============================================================================
