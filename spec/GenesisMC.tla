----------------------------- MODULE GenesisMC -----------------------------
(***************************************************************************)
(* Genesis files are INPUT: "two nodes that start from the same genesis"   *)
(* (C09), "initialising a fresh chain from it" (C08) quantify over every   *)
(* genesis the modules' validation admits, not only over exports of chains *)
(* that were built by transactions.  This module enumerates such values    *)
(* from small pools of entries - ordinary ones next to legal oddities that *)
(* no transaction produces: zero timestamps (abstract time -2), counters that disagree with   *)
(* the contents, empty optional fields, tombstones, an entry filed under a *)
(* key that differs from its document's id (legacy chains), case twins.    *)
(* One section at a time is varied (the others stay at a fixed base), so   *)
(* the number of values is the SUM of the pools' subset counts.            *)
(*                                                                         *)
(* TLC checks GenValid (Genesis.tla) for each and prints it; the harness   *)
(* builds the real genesis JSON, starts replicas from it (C09 stage) and   *)
(* the init step of Trace.tla demands that the stores after InitChain are  *)
(* exactly Genesis!Imported(g).                                            *)
(***************************************************************************)
EXTENDS MC

A1of(d) == DocByName(d, "A1")

OwnerPool  == {[k |-> <<"a1">>, v |-> 1], [k |-> <<"a2">>, v |-> 0]}
TopicPool  == {[k |-> <<"a1", "t1">>, v |-> [desc |-> "x", nw |-> 2, nr |-> 2]],
               [k |-> <<"a1", "tc">>, v |-> [desc |-> "", nw |-> 0, nr |-> 7]]}          \* case twin of t1; counter without records
WriterPool == {[k |-> <<"a1", "t1", "a2">>, v |-> [mon |-> "m", desc |-> "x", ts |-> 3]],
               [k |-> <<"a1", "t1", "a1">>, v |-> [mon |-> "", desc |-> "", ts |-> -2]],   \* no registration time, empty optional fields
               [k |-> <<"a1", "tc", "a2">>, v |-> [mon |-> "m", desc |-> "", ts |-> -2]]}
RecordPool == {[k |-> <<"a1", "t1", "0">>, v |-> [key |-> "k1", val |-> "v1", w |-> "a2", ts |-> 3]],
               [k |-> <<"a1", "t1", "1">>, v |-> [key |-> "", val |-> "", w |-> "a1", ts |-> -2]]}
DidPool    == {[k |-> "d1", v |-> [doc |-> A1of("d1"), seq |-> 0]],
               [k |-> "d2", v |-> [doc |-> EmptyDoc, seq |-> 2]],                         \* tombstone
               [k |-> "dc", v |-> [doc |-> A1of("d1"), seq |-> 4]]}                        \* legacy: filed under dc, describes d1
DenomPool  == {[id |-> "n1", v |-> [owner |-> "a1", name |-> "x", symbol |-> "S", desc |-> "", uri |-> "", hash |-> "", data |-> ""]],
               [id |-> "nc", v |-> [owner |-> "a2", name |-> "y", symbol |-> "S", desc |-> "q", uri |-> "u", hash |-> "h", data |-> "z"]]}
PnftPool   == {[denom |-> "n1", id |-> "i1", v |-> [name |-> "x", desc |-> "", uri |-> "u", hash |-> "", data |-> "q", creator |-> "a1", at |-> 3, owner |-> "a2"]],
               [denom |-> "n1", id |-> "ic", v |-> [name |-> "y", desc |-> "q", uri |-> "u", hash |-> "", data |-> "", creator |-> "a2", at |-> 5, owner |-> "a1"]]}

Base == [aolOwners |-> OwnerPool, aolTopics |-> TopicPool, aolWriters |-> {CHOOSE e \in WriterPool : e.v.ts = 3}, aolRecords |-> {CHOOSE e \in RecordPool : e.v.ts = 3},
         did |-> {CHOOSE e \in DidPool : e.k = "d1"}, denoms |-> {CHOOSE e \in DenomPool : e.id = "n1"}, pnfts |-> {CHOOSE e \in PnftPool : e.id = "i1"}]

Vary(f, S) == [Base EXCEPT ![f] = S]

EntrySets ==
    {Vary("aolOwners", S) : S \in SUBSET OwnerPool} \cup {Vary("aolTopics", S) : S \in SUBSET TopicPool}
    \cup {Vary("aolWriters", S) : S \in SUBSET WriterPool} \cup {Vary("aolRecords", S) : S \in SUBSET RecordPool}
    \cup {Vary("did", S) : S \in SUBSET DidPool} \cup {Vary("denoms", S) : S \in (SUBSET DenomPool) \ {{}}}
    \cup {Vary("pnfts", S) : S \in SUBSET PnftPool}
    \cup {[Base EXCEPT !.denoms = {}, !.pnfts = {}]}

\* InitGenesis re-mints every token into its denom: a token of a denom that the same file does not declare makes InitChain panic (the chain never
\* starts; not a state of the system), so such files are left out
Startable(es) == \A p \in es.pnfts : \E d \in es.denoms : d.id = p.denom

\* in the shape of Genesis!Gen
AsGen(es) == [aolOwners |-> MapOf(es.aolOwners), aolTopics |-> MapOf(es.aolTopics), aolWriters |-> MapOf(es.aolWriters), aolRecords |-> MapOf(es.aolRecords),
              did |-> MapOf(es.did), denoms |-> es.denoms, pnfts |-> es.pnfts]

VARIABLE g
gvars == <<g, mcvars>>
GInit == Init /\ g \in {es \in EntrySets : Startable(es)}
GNext == UNCHANGED gvars
GSpec == GInit /\ [][GNext]_gvars

AllValid == GenValid(AsGen(g))
GenDump == PrintT(<<"GENESIS", g>>)
=============================================================================
