------------------------------- MODULE Panacea -------------------------------
(***************************************************************************)
(* Explicit specification of the MediBloc Panacea application chain        *)
(* (panacea-core, Cosmos-SDK v0.47): the custom modules x/aol, x/did,      *)
(* x/pnft, x/burn, and the part of the SDK that carries them (ante         *)
(* handler: stateless validation, fee deduction, signature check; message  *)
(* execution in one all-or-nothing branch; authz delegation; bank sends    *)
(* and vesting as far as the burn address is concerned; block life cycle;  *)
(* clean restart; genesis export/import).                                  *)
(*                                                                         *)
(* The specification is written to be BOUND to the code: one named action  *)
(* per ABCI entry point the harness drives, handlers check their guards in *)
(* the order the Go handlers do (so the error class of a rejected message  *)
(* is predicted), and the data layout decisions that matter are kept       *)
(* (denormalised counters, tombstones, owner index, supply counter).       *)
(*                                                                         *)
(* Deliberate abstractions (each one is a statement about the harness):    *)
(*  - time is the block height (the harness uses t0 + h*(1s+1ns));         *)
(*  - gas is not modelled (ample gas is always supplied);                  *)
(*  - account sequence numbers are managed by the harness, not modelled;   *)
(*  - amounts of the second denomination are counted in units U;           *)
(*  - staking, ibc, group are quiescent; everything they hold is the       *)
(*    aggregate `rest`.  Governance appears in one role only: a passed     *)
(*    community-pool spend that pays the burn address inside EndBlock      *)
(*    (GovSchedule / pending / Arrives);                                   *)
(*  - mempool and gas-estimation traffic (CheckTx, ReCheckTx, Simulate) is *)
(*    the action Noise: it changes nothing, which is the point;            *)
(*  - the declared fee may hold two coins (FeeOf); the optional tip field  *)
(*    of the envelope is carried by transactions and is inert.             *)
(* Genesis.tla (which Props.tla extends) transcribes the three modules'    *)
(* genesis export / validation / import.                                   *)
(***************************************************************************)
EXTENDS Integers, Sequences, FiniteSets, TLC

CONSTANTS
    Accts,          \* key-holding accounts, e.g. {"a1","a2","a3"}
    FeeUnit,        \* umed per abstract fee unit (harness: 1000)
    Deviations,     \* named deviations from the intended behaviour, {} everywhere except in simulation configs that want the
                    \* generator (not the judge) to behave like a known-bad implementation, e.g. {"nulids"}
    MaxHeight       \* bound on block height in exhaustive configs

BurnAcct == "burn"        \* the designated burn address
FeeColl  == "fee"         \* fee collector module account
BurnMod  == "burnmod"     \* burn module account
Tracked  == Accts \cup {BurnAcct, FeeColl, BurnMod}
Denoms   == {"umed", "ubig"}

VARIABLES
    height,      \* height of the block in progress
    phase,       \* "in" (inside a block) | "ended" (EndBlock done, not yet committed)
    aolOwners,   \* [owner -> total_topics]                         (store prefix 0x00)
    aolTopics,   \* [<<owner,topic>> -> [desc, nw, nr]]             (0x01)
    aolWriters,  \* [<<owner,topic,writer>> -> [mon, desc, ts]]     (0x02)
    aolRecords,  \* [<<owner,topic,offset>> -> [key,val,w,ts]]      (0x03)
    didReg,      \* [did -> [doc, seq]]  (an empty doc with seq>0 is a tombstone)
    pnDenoms,    \* [denomId -> [owner,name,symbol,desc,uri,hash,data]]     (x/nft 0x01)
    pnTokens,    \* [<<denom,id>> -> [name,desc,uri,hash,data,creator,at,owner]] (0x02 + 0x04)
    pnIndex,     \* set of <<owner,denom,id>>                               (0x03)
    pnSupply,    \* [denomId -> Nat]                                        (0x05)
    bal,         \* [Tracked -> [Denoms -> Nat]] total balances
    vest,        \* set of [a, d, amt, end]: delayed vesting schedules
    exists,      \* accounts that exist in x/auth
    supply,      \* [Denoms -> Nat]
    rest,        \* [Denoms -> Nat]: sum of all untracked balances
    pending,     \* set of [at, amt]: community-pool spends to the burn address that x/gov will execute in the EndBlock of height `at`
    grants,      \* set of <<granter, grantee, msgType>>
    act          \* observation: the last action with its result

custom == <<aolOwners, aolTopics, aolWriters, aolRecords, didReg, pnDenoms, pnTokens, pnIndex, pnSupply>>
bank   == <<bal, vest, exists, supply, rest, pending>>
vars   == <<height, phase, custom, bank, grants, act>>

-----------------------------------------------------------------------------
(* helpers *)

Put(f, k, v)  == [x \in DOMAIN f \cup {k} |-> IF x = k THEN v ELSE f[x]]
Drop(f, k)    == [x \in DOMAIN f \ {k} |-> f[x]]
Get(f, k, d)  == IF k \in DOMAIN f THEN f[k] ELSE d
Range(f)      == {f[x] : x \in DOMAIN f}
Max(a, b)     == IF a > b THEN a ELSE b

EmptyDoc == [id |-> "", vms |-> {}, auth |-> {}, asrt |-> {}, ex |-> ""]

\* The custom-module state as one value, so that a transaction can run on a copy.
CS == [ao |-> aolOwners, at |-> aolTopics, aw |-> aolWriters, ar |-> aolRecords,
       dr |-> didReg, pd |-> pnDenoms, pt |-> pnTokens, pi |-> pnIndex, ps |-> pnSupply,
       bal |-> bal, vest |-> vest, exists |-> exists, grants |-> grants]

Ok(s)        == [ok |-> TRUE,  code |-> "",   s |-> s, off |-> -1]
OkOff(s, n)  == [ok |-> TRUE,  code |-> "",   s |-> s, off |-> n]
Fail(s, c)   == [ok |-> FALSE, code |-> c,    s |-> s, off |-> -1]

-----------------------------------------------------------------------------
(* x/aol handlers — guards in the order of x/aol/keeper/msg_server_*.go *)

AolCreateTopic(m, s) ==
    LET k == <<m.owner, m.topic>> IN
    IF k \in DOMAIN s.at THEN Fail(s, "aol/5")
    ELSE Ok([s EXCEPT !.ao = Put(@, m.owner, Get(@, m.owner, 0) + 1),
                      !.at = Put(@, k, [desc |-> m.desc, nw |-> 0, nr |-> 0])])

AolAddWriter(m, s, now) ==
    LET tk == <<m.owner, m.topic>>
        wk == <<m.owner, m.topic, m.writer>> IN
    IF tk \notin DOMAIN s.at THEN Fail(s, "aol/7")
    ELSE IF wk \in DOMAIN s.aw THEN Fail(s, "aol/6")
    ELSE Ok([s EXCEPT !.at = Put(@, tk, [@[tk] EXCEPT !.nw = @ + 1]),
                      !.aw = Put(@, wk, [mon |-> m.mon, desc |-> m.desc, ts |-> now])])

\* DeleteWriter does not check the topic: a writer entry implies it (GetTopic of a missing topic would yield zero values).
AolDeleteWriter(m, s) ==
    LET tk == <<m.owner, m.topic>>
        wk == <<m.owner, m.topic, m.writer>> IN
    IF wk \notin DOMAIN s.aw THEN Fail(s, "aol/8")
    ELSE Ok([s EXCEPT !.at = Put(@, tk, [Get(@, tk, [desc |-> "", nw |-> 0, nr |-> 0]) EXCEPT !.nw = @ - 1]),
                      !.aw = Drop(@, wk)])

AolAddRecord(m, s, now) ==
    LET tk == <<m.owner, m.topic>>
        wk == <<m.owner, m.topic, m.writer>> IN
    IF tk \notin DOMAIN s.at THEN Fail(s, "aol/7")
    ELSE IF wk \notin DOMAIN s.aw THEN Fail(s, "aol/9")
    ELSE LET n == s.at[tk].nr IN
         OkOff([s EXCEPT !.at = Put(@, tk, [@[tk] EXCEPT !.nr = n + 1]),
                         !.ar = Put(@, <<m.owner, m.topic, n>>, [key |-> m.key, val |-> m.val, w |-> m.writer, ts |-> now])], n)

-----------------------------------------------------------------------------
(* x/did — abstract documents and proofs                                   *)
(* doc   = [id, vms : set of [n,key,type], auth : set of [n,ded,key,type], asrt : set of names,    *)
(*          ex : "" | "rich" | "rich2" | "xvm" (controller list, second context, key agreement, capability            *)
(*          invocation, three services two of which share an id - carried verbatim by the registry)] *)
(* proof = [key, data, seq]: a real secp256k1 signature by `key` over       *)
(*         proto(DataWithSeq{marshal(data), seq}); key "none" = no signature *)

DeactDoc(d) == [id |-> d, vms |-> {}, auth |-> {}, asrt |-> {}, ex |-> ""]   \* sign data of a deactivation: DIDDocument{Id: did}

VmByName(doc, n) == {v \in doc.vms : v.n = n}

\* DIDDocument.Valid() on the documents the alphabet can express (ids, key material and types are always well-formed there)
DocValid(doc) ==
    /\ doc.id # ""
    /\ doc.vms # {} /\ doc.auth # {}        \* nil slices after decoding
    /\ doc.ex # "xvm"                       \* every method id must be "<doc.id>#name": a document whose methods carry ANOTHER did's prefix is malformed
    /\ \A a \in doc.auth : a.ded \/ VmByName(doc, a.n) # {}
    /\ \A n \in doc.asrt : VmByName(doc, n) # {}

\* VerificationMethodFrom(doc.Authentications, id): first matching relationship in document order.
\* The harness orders relationships by (name, dedicated?, ...), referenced before dedicated for equal names.
AuthMethod(doc, vmDid, n) ==
    IF vmDid # doc.id THEN {}     \* the id is "<doc.id>#name"; another DID's prefix never matches
    ELSE LET refs == {a \in doc.auth : a.n = n /\ ~a.ded}
             deds == {a \in doc.auth : a.n = n /\ a.ded} IN
         IF refs # {} THEN {[key |-> v.key, type |-> v.type] : v \in VmByName(doc, n)}
         ELSE {[key |-> a.key, type |-> a.type] : a \in deds}

Secp(type) == type \in {"es19", "es18"}

\* VerifyDIDOwnership(signData, seq, authDoc, vmId, sig): "" when it verifies, else the error code
Ownership(signData, seq, authDoc, m) ==
    LET ms == AuthMethod(authDoc, m.vmDid, m.vm) IN
    IF ms = {} THEN "did/8"
    ELSE LET meth == CHOOSE x \in ms : TRUE IN
         IF ~Secp(meth.type) THEN "did/15"
         ELSE IF m.proof.key = meth.key /\ m.proof.data = signData /\ m.proof.seq = seq THEN "" ELSE "did/9"

DidEmpty(s, d)       == d \notin DOMAIN s.dr \/ (s.dr[d].doc.id = "" /\ s.dr[d].seq = 0)
DidDeactivated(s, d) == d \in DOMAIN s.dr /\ s.dr[d].doc.id = "" /\ s.dr[d].seq # 0

DidCreate(m, s) ==
    IF ~DidEmpty(s, m.did) THEN (IF DidDeactivated(s, m.did) THEN Fail(s, "did/13") ELSE Fail(s, "did/2"))
    ELSE IF m.doc.id # m.did THEN Fail(s, "did/4")
    ELSE LET e == Ownership(m.doc, 0, m.doc, m) IN
         IF e # "" THEN Fail(s, e)
         ELSE Ok([s EXCEPT !.dr = Put(@, m.did, [doc |-> m.doc, seq |-> 0])])

DidUpdate(m, s) ==
    IF DidEmpty(s, m.did) THEN Fail(s, "did/5")
    ELSE IF DidDeactivated(s, m.did) THEN Fail(s, "did/13")
    ELSE IF m.doc.id # m.did THEN Fail(s, "did/4")
    ELSE LET cur == s.dr[m.did]
             e == Ownership(m.doc, cur.seq, cur.doc, m) IN
         IF e # "" THEN Fail(s, e)
         ELSE Ok([s EXCEPT !.dr = Put(@, m.did, [doc |-> m.doc, seq |-> cur.seq + 1])])

DidDeactivate(m, s) ==
    IF DidEmpty(s, m.did) THEN Fail(s, "did/5")
    ELSE IF DidDeactivated(s, m.did) THEN Fail(s, "did/13")
    ELSE LET cur == s.dr[m.did]
             e == Ownership(DeactDoc(m.did), cur.seq, cur.doc, m) IN
         IF e # "" THEN Fail(s, e)
         ELSE Ok([s EXCEPT !.dr = Put(@, m.did, [doc |-> EmptyDoc, seq |-> cur.seq + 1])])

-----------------------------------------------------------------------------
(* x/pnft over the x/nft layout *)

Upd(old, new) == IF new = "" THEN old ELSE new
TokensOf(s, d) == {k \in DOMAIN s.pt : k[1] = d}

PnCreateDenom(m, s) ==
    IF m.id \in DOMAIN s.pd THEN Fail(s, "pnft/1")
    ELSE Ok([s EXCEPT !.pd = Put(@, m.id, [owner |-> m.actor, name |-> m.name, symbol |-> m.symbol, desc |-> m.desc,
                                            uri |-> m.uri, hash |-> m.hash, data |-> m.data])])

PnUpdateDenom(m, s) ==
    IF m.id \notin DOMAIN s.pd \/ s.pd[m.id].owner # m.actor THEN Fail(s, "pnft/2")
    ELSE LET o == s.pd[m.id] IN
         Ok([s EXCEPT !.pd = Put(@, m.id, [owner |-> o.owner, name |-> Upd(o.name, m.name), symbol |-> Upd(o.symbol, m.symbol),
                                            desc |-> Upd(o.desc, m.desc), uri |-> Upd(o.uri, m.uri), hash |-> Upd(o.hash, m.hash),
                                            data |-> Upd(o.data, m.data)])])

PnDeleteDenom(m, s) ==
    IF m.id \notin DOMAIN s.pd \/ s.pd[m.id].owner # m.actor THEN Fail(s, "pnft/3")
    ELSE IF Get(s.ps, m.id, 0) > 0 THEN Fail(s, "pnft/3")      \* tokens must be burned first
    ELSE Ok([s EXCEPT !.pd = Drop(@, m.id)])

PnTransferDenom(m, s) ==
    IF m.id \notin DOMAIN s.pd \/ s.pd[m.id].owner # m.actor THEN Fail(s, "pnft/4")
    ELSE Ok([s EXCEPT !.pd = Put(@, m.id, [@[m.id] EXCEPT !.owner = m.to])])

PnMint(m, s, now) ==
    LET k == <<m.denom, m.id>> IN
    IF m.denom \notin DOMAIN s.pd \/ s.pd[m.denom].owner # m.actor \/ k \in DOMAIN s.pt THEN Fail(s, "pnft/6")
    ELSE Ok([s EXCEPT !.pt = Put(@, k, [name |-> m.name, desc |-> m.desc, uri |-> m.uri, hash |-> m.hash, data |-> m.data,
                                        creator |-> m.actor, at |-> now, owner |-> m.actor]),
                      !.pi = @ \cup {<<m.actor, m.denom, m.id>>},
                      !.ps = Put(@, m.denom, Get(@, m.denom, 0) + 1)])

PnTransfer(m, s) ==
    LET k == <<m.denom, m.id>> IN
    IF k \notin DOMAIN s.pt \/ s.pt[k].owner # m.actor \/ m.denom \notin DOMAIN s.pd THEN Fail(s, "pnft/7")
    ELSE Ok([s EXCEPT !.pt = Put(@, k, [@[k] EXCEPT !.owner = m.to]),
                      !.pi = (@ \ {<<m.actor, m.denom, m.id>>}) \cup {<<m.to, m.denom, m.id>>}])

PnBurn(m, s) ==
    LET k == <<m.denom, m.id>> IN
    IF k \notin DOMAIN s.pt \/ s.pt[k].owner # m.actor \/ m.denom \notin DOMAIN s.pd THEN Fail(s, "pnft/8")
    ELSE Ok([s EXCEPT !.pt = Drop(@, k),
                      !.pi = @ \ {<<m.actor, m.denom, m.id>>},
                      !.ps = Put(@, m.denom, Get(@, m.denom, 0) - 1)])

-----------------------------------------------------------------------------
(* bank / vesting, as far as they move coins between tracked accounts *)

LockedAt(s, a, d, now) ==
    LET vs == {v \in s.vest : v.a = a /\ v.d = d /\ now < v.end} IN
    IF vs = {} THEN 0 ELSE (CHOOSE v \in vs : TRUE).amt      \* at most one schedule per account

SpendableAt(s, a, d, now) == Max(s.bal[a][d] - LockedAt(s, a, d, now), 0)

Move(s, from, to, d, amt) ==
    [s EXCEPT !.bal = [@ EXCEPT ![from] = [@ EXCEPT ![d] = @ - amt], ![to] = [@ EXCEPT ![d] = @ + amt]],
              !.exists = @ \cup {to}]

\* module accounts are blocked receivers (app.BlockedAddresses): nobody can put coins - or an ordinary account - at the burn MODULE address,
\* which x/burn creates as a module account on its first burn
Blocked == {BurnMod, FeeColl}

BankSend(m, s, now, total) ==
    IF m.to \in Blocked THEN Fail(s, "sdk/4")
    ELSE IF SpendableAt(s, m.from, m.denom, now) < total THEN Fail(s, "sdk/5")
    ELSE Ok(Move(s, m.from, m.to, m.denom, total))

VestingCreate(m, s, now) ==
    IF m.to \in s.exists THEN Fail(s, "sdk/18")         \* "account ... already exists" (invalid request)
    ELSE IF SpendableAt(s, m.from, m.denom, now) < m.amt THEN Fail(s, "sdk/5")
    ELSE Ok([Move(s, m.from, m.to, m.denom, m.amt) EXCEPT !.vest = @ \cup {[a |-> m.to, d |-> m.denom, amt |-> m.amt, end |-> m.end]}])

-----------------------------------------------------------------------------
(* message dispatch *)

CustomTypes == {"aol.CreateTopic", "aol.AddWriter", "aol.DeleteWriter", "aol.AddRecord",
                "did.Create", "did.Update", "did.Deactivate",
                "pnft.CreateDenom", "pnft.UpdateDenom", "pnft.DeleteDenom", "pnft.TransferDenom",
                "pnft.Mint", "pnft.Transfer", "pnft.Burn"}

\* abstract identifiers that stand for strings containing NUL, the x/nft store-key delimiter (harness: "a\0b", "b\0c")
NulIds == IF "nulids" \in Deviations THEN {} ELSE {"nz", "iz"}

\* abstract topic names that stand for names outside the published alphabet (harness: "ts" = "a/b", the genesis key separator)
BadTopics == IF "slashtopics" \in Deviations THEN {} ELSE {"ts"}

\* GetSigners of a message, in order
Signers(m) ==
    CASE m.type \in {"aol.CreateTopic", "aol.AddWriter", "aol.DeleteWriter"} -> <<m.owner>>
      [] m.type = "aol.AddRecord" -> IF m.feePayer = "none" THEN <<m.writer>> ELSE <<m.feePayer, m.writer>>   \* not de-duplicated (the transaction does that)
      [] m.type \in {"did.Create", "did.Update", "did.Deactivate"} -> <<m.from>>
      [] m.type \in {"pnft.CreateDenom", "pnft.UpdateDenom", "pnft.DeleteDenom", "pnft.TransferDenom",
                     "pnft.Mint", "pnft.Transfer", "pnft.Burn"} -> <<m.actor>>
      [] m.type \in {"bank.Send", "bank.MultiSend", "vesting.Create"} -> <<m.from>>
      [] m.type \in {"authz.Grant", "authz.Revoke"} -> <<m.granter>>

\* ValidateBasic on the abstract alphabet: "" or the error code. (The field-shape lattice of C16 lives in Shapes.tla.)
Stateless(m) ==
    CASE m.type \in {"did.Create", "did.Update"} ->
            IF m.doc.id = "" \/ m.doc.id # m.did \/ ~DocValid(m.doc) THEN "did/4"
            ELSE IF m.proof.key = "none" THEN "did/6" ELSE ""
      [] m.type = "did.Deactivate" -> IF m.proof.key = "none" THEN "did/6" ELSE ""
      [] m.type \in {"pnft.CreateDenom"} -> IF m.id = "" \/ m.id \in NulIds \/ m.name = "" \/ m.symbol = "" THEN "undefined/1" ELSE ""
      [] m.type \in {"pnft.UpdateDenom", "pnft.DeleteDenom", "pnft.TransferDenom"} -> IF m.id \in NulIds THEN "undefined/1" ELSE ""
      [] m.type = "pnft.Mint" -> IF m.name = "" \/ m.denom \in NulIds \/ m.id \in NulIds THEN "undefined/1" ELSE ""
      [] m.type \in {"pnft.Transfer", "pnft.Burn"} -> IF m.denom \in NulIds \/ m.id \in NulIds THEN "undefined/1" ELSE ""
      [] m.type \in {"bank.Send", "vesting.Create"} -> IF m.amt <= 0 THEN "sdk/10" ELSE ""
      [] m.type = "bank.MultiSend" -> IF m.amt <= 0 THEN "sdk/10" ELSE ""
      [] m.type \in {"authz.Grant", "authz.Revoke"} -> IF m.granter = m.grantee THEN "authz/7" ELSE ""
      [] m.type \in {"aol.CreateTopic", "aol.AddWriter", "aol.DeleteWriter", "aol.AddRecord"} -> IF m.topic \in BadTopics THEN "aol/3" ELSE ""
      [] OTHER -> ""

Apply(m, s, now) ==
    CASE m.type = "aol.CreateTopic"    -> AolCreateTopic(m, s)
      [] m.type = "aol.AddWriter"      -> AolAddWriter(m, s, now)
      [] m.type = "aol.DeleteWriter"   -> AolDeleteWriter(m, s)
      [] m.type = "aol.AddRecord"      -> AolAddRecord(m, s, now)
      [] m.type = "did.Create"         -> DidCreate(m, s)
      [] m.type = "did.Update"         -> DidUpdate(m, s)
      [] m.type = "did.Deactivate"     -> DidDeactivate(m, s)
      [] m.type = "pnft.CreateDenom"   -> PnCreateDenom(m, s)
      [] m.type = "pnft.UpdateDenom"   -> PnUpdateDenom(m, s)
      [] m.type = "pnft.DeleteDenom"   -> PnDeleteDenom(m, s)
      [] m.type = "pnft.TransferDenom" -> PnTransferDenom(m, s)
      [] m.type = "pnft.Mint"          -> PnMint(m, s, now)
      [] m.type = "pnft.Transfer"      -> PnTransfer(m, s)
      [] m.type = "pnft.Burn"          -> PnBurn(m, s)
      [] m.type = "bank.Send"          -> BankSend(m, s, now, m.amt)
      [] m.type = "bank.MultiSend"     -> BankSend(m, s, now, m.amt * m.parts)
      [] m.type = "vesting.Create"     -> VestingCreate(m, s, now)
      [] m.type = "authz.Grant"        -> Ok([s EXCEPT !.grants = @ \cup {<<m.granter, m.grantee, m.msgType>>}])
      [] m.type = "authz.Revoke"       -> IF <<m.granter, m.grantee, m.msgType>> \in s.grants
                                          THEN Ok([s EXCEPT !.grants = @ \ {<<m.granter, m.grantee, m.msgType>>}])
                                          ELSE Fail(s, "authz/2")

\* Run messages left to right on a copy; the first failure discards the copy.
RECURSIVE RunMsgs(_, _, _, _, _)
RunMsgs(msgs, i, s, now, offs) ==
    IF i > Len(msgs) THEN [ok |-> TRUE, failIdx |-> 0, code |-> "", s |-> s, offs |-> offs]
    ELSE LET r == Apply(msgs[i], s, now) IN
         IF r.ok THEN RunMsgs(msgs, i + 1, r.s, now, Append(offs, r.off))
         ELSE [ok |-> FALSE, failIdx |-> i, code |-> r.code, s |-> s, offs |-> <<>>]

\* authz MsgExec: every inner message must have exactly one signer; the grantee needs a grant unless it is that signer.
RECURSIVE ExecAuthorized(_, _, _, _)
ExecAuthorized(msgs, i, grantee, gr) ==
    IF i > Len(msgs) THEN ""
    ELSE LET sg == Signers(msgs[i]) IN
         IF Len(sg) # 1 THEN "authz/9"
         ELSE IF sg[1] # grantee /\ <<sg[1], grantee, msgs[i].type>> \notin gr THEN "authz/2"
         ELSE ExecAuthorized(msgs, i + 1, grantee, gr)

\* authz checks each inner message right before dispatching it, so grants created earlier in the same Exec count,
\* and a later unauthorised message discards the effects of the earlier ones.
RECURSIVE RunExec(_, _, _, _, _, _)
RunExec(msgs, i, grantee, s, now, offs) ==
    IF i > Len(msgs) THEN [ok |-> TRUE, failIdx |-> 0, code |-> "", s |-> s, offs |-> offs]
    ELSE LET sg == Signers(msgs[i]) IN
         IF Len(sg) # 1 THEN [ok |-> FALSE, failIdx |-> 1, code |-> "authz/9", s |-> s, offs |-> <<>>]
         ELSE IF sg[1] # grantee /\ <<sg[1], grantee, msgs[i].type>> \notin s.grants
              THEN [ok |-> FALSE, failIdx |-> 1, code |-> "authz/2", s |-> s, offs |-> <<>>]
         ELSE LET r == Apply(msgs[i], s, now) IN
              IF r.ok THEN RunExec(msgs, i + 1, grantee, r.s, now, Append(offs, r.off))
              ELSE [ok |-> FALSE, failIdx |-> 1, code |-> r.code, s |-> s, offs |-> <<>>]

\* ordered, de-duplicated signers of a transaction
RECURSIVE Dedup(_, _)
Dedup(seq, seen) ==
    IF seq = <<>> THEN <<>>
    ELSE IF Head(seq) \in seen THEN Dedup(Tail(seq), seen)
    ELSE <<Head(seq)>> \o Dedup(Tail(seq), seen \cup {Head(seq)})

RECURSIVE Flat(_, _)
Flat(msgs, i) == IF i > Len(msgs) THEN <<>> ELSE Signers(msgs[i]) \o Flat(msgs, i + 1)

Required(tx) == IF tx.exec # "none" THEN <<tx.exec>> ELSE Dedup(Flat(tx.msgs, 1), {})
Payer(tx)    == Required(tx)[1]

RECURSIVE FirstStateless(_, _)
FirstStateless(msgs, i) ==
    IF i > Len(msgs) THEN ""
    ELSE IF Stateless(msgs[i]) # "" THEN Stateless(msgs[i]) ELSE FirstStateless(msgs, i + 1)

\* The declared fee: tx.fee abstract units of umed plus (optional field fee2) an amount of the second denomination - any coin the payer holds
\* is a legal fee coin, and the WHOLE declared fee is what moves.
FeeOf(tx, d) == IF d = "umed" THEN tx.fee * FeeUnit ELSE IF "fee2" \in DOMAIN tx THEN tx.fee2 ELSE 0

\* The outcome of delivering tx in the current state (a value; Deliver turns it into the next state).
Outcome(tx) ==
    LET s0  == CS
        vb  == FirstStateless(tx.msgs, 1)
        req == Required(tx) IN
    IF vb # "" THEN [result |-> "ante", failIdx |-> 0, code |-> vb, s |-> s0, offs |-> <<>>]
    ELSE IF \E d \in Denoms : FeeOf(tx, d) > 0 /\ SpendableAt(s0, Payer(tx), d, height) < FeeOf(tx, d)
         THEN [result |-> "ante", failIdx |-> 0, code |-> "sdk/5", s |-> s0, offs |-> <<>>]
    ELSE IF \E i \in 1..Len(req) : req[i] \notin tx.signers
         THEN [result |-> "ante", failIdx |-> 0, code |-> "sdk/4", s |-> s0, offs |-> <<>>]
    ELSE LET sa == IF FeeOf(tx, "umed") > 0 THEN Move(s0, Payer(tx), FeeColl, "umed", FeeOf(tx, "umed")) ELSE s0
             s1 == IF FeeOf(tx, "ubig") > 0 THEN Move(sa, Payer(tx), FeeColl, "ubig", FeeOf(tx, "ubig")) ELSE sa
             r  == IF tx.exec = "none" THEN RunMsgs(tx.msgs, 1, s1, height, <<>>)
                   ELSE RunExec(tx.msgs, 1, tx.exec, s1, height, <<>>) IN
         IF r.ok THEN [result |-> "ok", failIdx |-> 0, code |-> "", s |-> r.s, offs |-> r.offs]
         ELSE [result |-> "fail", failIdx |-> r.failIdx, code |-> r.code, s |-> s1, offs |-> <<>>]

SetCS(s) ==
    /\ aolOwners' = s.ao /\ aolTopics' = s.at /\ aolWriters' = s.aw /\ aolRecords' = s.ar
    /\ didReg' = s.dr
    /\ pnDenoms' = s.pd /\ pnTokens' = s.pt /\ pnIndex' = s.pi /\ pnSupply' = s.ps
    /\ bal' = s.bal /\ vest' = s.vest /\ exists' = s.exists /\ grants' = s.grants

-----------------------------------------------------------------------------
(* actions *)

Deliver(tx) ==
    /\ phase = "in"
    /\ LET o == Outcome(tx) IN
       /\ SetCS(o.s)
       /\ act' = [name |-> "Deliver", tx |-> tx, result |-> o.result, failIdx |-> o.failIdx, code |-> o.code, offs |-> o.offs]
    /\ UNCHANGED <<height, phase, supply, rest, pending>>

\* The very same transaction BYTES delivered again (any later point, same or later block). If the first delivery got past the ante
\* handler, the signers' account sequences have moved on: the copy dies in the ante handler (sdk/32) and changes nothing.
\* `e` is the record of the earlier delivery: [tx, passed]. (Account sequences themselves are managed by the harness, not modelled.)
Redeliver(e, k) ==
    /\ phase = "in" /\ e.passed
    /\ act' = [name |-> "Redeliver", k |-> k, tx |-> e.tx, result |-> "ante", failIdx |-> 0, code |-> "sdk/32", offs |-> <<>>]
    /\ UNCHANGED <<height, phase, custom, bank, grants>>

\* Mempool and gas-estimation traffic: CheckTx, ReCheckTx and Simulate run the ante handler (Simulate: the message handlers too) on a branch of
\* the CHECK state.  Nothing of it is ever committed, and nothing of it may influence what later deliveries do.
Noise(kind, tx) ==
    /\ phase = "in" /\ kind \in {"check", "recheck", "simulate"}
    /\ act' = [name |-> "Noise", kind |-> kind, tx |-> tx]
    /\ UNCHANGED <<height, phase, custom, bank, grants>>

\* A route to the burn address that does not pass through a transaction of the block in which the coins arrive: a governance proposal
\* whose message is distribution.MsgCommunityPoolSpend{recipient: burn address}.  GovSchedule(n) abstracts "an (untracked) account funds the
\* community pool with n umed, submits the proposal with its deposit, and the bonded stake votes yes" - three transactions of the current
\* block, all between untracked accounts.  x/gov's EndBlocker executes the spend when the voting period (GovDelay blocks) is over; the app
\* orders x/burn's EndBlocker after x/gov's, so the coins are burned in the very EndBlock in which they arrive.
GovDelay == 2

GovSchedule(n) ==
    /\ phase = "in"
    /\ ~\E p \in pending : p.at = height + GovDelay
    /\ pending' = pending \cup {[at |-> height + GovDelay, amt |-> n]}
    /\ act' = [name |-> "GovSchedule", amt |-> n, ok |-> TRUE]
    /\ UNCHANGED <<height, phase, custom, bal, vest, exists, supply, rest, grants>>

Due == {p \in pending : p.at = height}
RECURSIVE SumAmt(_)
SumAmt(S) == IF S = {} THEN 0 ELSE LET p == CHOOSE x \in S : TRUE IN p.amt + SumAmt(S \ {p})
Arrives(d) == IF d = "umed" THEN SumAmt(Due) ELSE 0      \* reaches the burn address inside this EndBlock, before x/burn runs

\* x/burn EndBlock: everything spendable at the burn address goes to the burn module account and is burned there.
BurnAmt(d) == SpendableAt(CS, BurnAcct, d, height)

EndBlock ==
    /\ phase = "in"
    /\ phase' = "ended"
    /\ bal' = [bal EXCEPT ![BurnAcct] = [d \in Denoms |-> bal[BurnAcct][d] - BurnAmt(d)]]
    /\ supply' = [d \in Denoms |-> supply[d] - BurnAmt(d) - Arrives(d)]
    /\ rest' = [d \in Denoms |-> rest[d] - Arrives(d)]
    /\ pending' = pending \ Due
    /\ exists' = (IF \E d \in Denoms : BurnAmt(d) + Arrives(d) > 0 THEN exists \cup {BurnMod} ELSE exists)   \* the module account is created on first use
                  \cup (IF Arrives("umed") > 0 THEN {BurnAcct} ELSE {})
    /\ act' = [name |-> "EndBlock", halted |-> FALSE, invOk |-> TRUE]
    /\ UNCHANGED <<height, custom, vest, grants>>

\* Commit, then BeginBlock of the next height: x/mint mints `minted` umed to the fee collector,
\* x/distribution sweeps the fee collector into its own (untracked) module account.
NextBlockBank(minted) ==
    /\ supply' = [supply EXCEPT !["umed"] = @ + minted]
    /\ rest'   = [d \in Denoms |-> rest[d] + bal[FeeColl][d] + (IF d = "umed" THEN minted ELSE 0)]
    /\ bal'    = [bal EXCEPT ![FeeColl] = [d \in Denoms |-> 0]]
    /\ UNCHANGED <<vest, exists, pending>>

BeginBlock(minted) ==
    /\ phase = "ended"
    /\ phase' = "in" /\ height' = height + 1
    /\ NextBlockBank(minted)
    /\ act' = [name |-> "BeginBlock", minted |-> minted]
    /\ UNCHANGED <<custom, grants>>

\* Commit, stop the process, start it again on the same database, BeginBlock.
RestartBegin(minted) ==
    /\ phase = "ended"
    /\ phase' = "in" /\ height' = height + 1
    /\ NextBlockBank(minted)
    /\ act' = [name |-> "RestartBegin", minted |-> minted, sameHash |-> TRUE]
    /\ UNCHANGED <<custom, grants>>

\* Commit, export genesis, InitChain of the export on a fresh application, BeginBlock there.
\* Export and import are written like x/*/genesis.go in Genesis.tla; here the round trip must be the identity
\* on the custom modules' state.
\* (the x/nft supply counter is recomputed by the re-mint: an entry that had dropped to zero is not re-created)
NormSupply(ps) == [d \in {x \in DOMAIN ps : ps[x] > 0} |-> ps[d]]

ExportImportBegin(minted) ==
    /\ phase = "ended"
    /\ phase' = "in" /\ height' = height + 1
    /\ NextBlockBank(minted)
    /\ act' = [name |-> "ExportImportBegin", minted |-> minted, exportOk |-> TRUE, exportTwiceEqual |-> TRUE, validateOk |-> TRUE,
               importOk |-> TRUE, viewsEqual |-> TRUE, reExportEqual |-> TRUE]
    /\ pnSupply' = NormSupply(pnSupply)
    /\ UNCHANGED <<aolOwners, aolTopics, aolWriters, aolRecords, didReg, pnDenoms, pnTokens, pnIndex, grants>>

=============================================================================
