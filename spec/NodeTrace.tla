------------------------------ MODULE NodeTrace ------------------------------
(***************************************************************************)
(* Trace specification for Node.tla: every logged event of the real node   *)
(* must be the Node action of that name (so the model state - committed    *)
(* height, phase, pending work - is the one the specification predicts),   *)
(* and the facts observed on the real application after the event must be  *)
(* the ones the restart-equivalence property demands, compared with the    *)
(* twin that never stopped:                                                *)
(*   - the application's last committed height is the model's h;           *)
(*   - its application hash is the twin's hash at height h;                *)
(*   - after Commit and after Restart the digest of the committed stores   *)
(*     is the twin's digest at height h (uncommitted work left no trace);  *)
(*   - every DeliverTx result equals the twin's result for that            *)
(*     transaction; nothing panics, the node can always restart;           *)
(*   - (C19) the planned upgrade is recorded done at its height with the   *)
(*     module version map of the binary, and the custom stores equal the   *)
(*     twin's before/after the upgrade block.                              *)
(***************************************************************************)
EXTENDS Node, Json, IOUtils, TLCExt

VARIABLES l, twin, cur, run

tvars == <<vars, l, twin, cur, run>>

Log == ndJsonDeserialize(IOEnv.TRACE_FILE)

Report(kind, id) == PrintT(<<kind, id, run', cur'.i, l>>)
Chk(id, cond)   == IF cond THEN TRUE ELSE Report("VIOLATION", id)
Drift(id, cond) == IF cond THEN TRUE ELSE Report("DRIFT", id)

TwinAt(n) == LET es == {twin'[i] : i \in {j \in DOMAIN twin' : twin'[j].h = n}} IN CHOOSE e \in es : TRUE

Act(name) ==
    CASE name = "Begin"   -> Begin
      [] name = "Deliver" -> Deliver
      [] name = "End"     -> End
      [] name = "Commit"  -> Commit
      [] name = "Crash"   -> Crash
      [] name \in {"Restart", "RestartInfo"} -> Restart
      [] OTHER -> FALSE

TraceInit ==
    /\ l = 1 /\ twin = <<>> /\ cur = [i |-> 0] /\ run = ""
    /\ Blocks = <<>> /\ UpgradeAt = 0
    /\ h = 0 /\ phase = "idle" /\ k = 0 /\ done = <<>> /\ pend = <<>>
    /\ upgraded = FALSE /\ pendUp = FALSE /\ crashes = 0 /\ sched = <<>>

Reset(rec) ==
    /\ Blocks' = rec.blocks /\ UpgradeAt' = rec.upgradeAt
    /\ h' = 0 /\ phase' = "idle" /\ k' = 0 /\ done' = <<>> /\ pend' = <<>>
    /\ upgraded' = FALSE /\ pendUp' = FALSE /\ crashes' = 0 /\ sched' = <<>>
    /\ twin' = rec.twin /\ cur' = [i |-> 0] /\ run' = rec.run
    /\ Chk("C10", rec.hash = TwinAt(0).hash /\ rec.digest = TwinAt(0).digest)

Event(rec) ==
    /\ twin' = twin /\ run' = run /\ cur' = rec
    /\ IF ENABLED Act(rec.name)
       THEN Act(rec.name)
       ELSE /\ Report("DRIFT", "not-enabled:" \o rec.name)
            /\ UNCHANGED vars
    \* C17/C10/C19: nothing panics; in particular the node can always be restarted on its database
    /\ Chk(IF rec.name \in {"Restart", "RestartInfo"} THEN (IF UpgradeAt = 0 THEN "C10" ELSE "C19") ELSE "C17", ~rec.panic)
    /\ IF rec.name = "Crash" \/ rec.panic THEN TRUE
       ELSE /\ Chk("C10", rec.lastHeight = h')
            /\ Chk("C10", rec.hash = TwinAt(h').hash)
            /\ rec.name = "Deliver" =>
                  LET a == rec.res
                      b == TwinAt(h' + 1).res[k'] IN
                  IF a = b THEN TRUE
                  \* the same result except for the gas reported for a transaction that was rejected before the ante handler installed
                  \* its gas meter (gasWanted = 0): a separately recorded finding in the pinned cosmos-sdk, see DESIGN.md section 7
                  ELSE IF [a EXCEPT !.gasUsed = 0] = [b EXCEPT !.gasUsed = 0] /\ a.gasWanted = 0 /\ a.code # 0
                       THEN Report("VIOLATION", "C10:preante-gas")
                       ELSE Report("VIOLATION", "C10")
            /\ rec.name \in {"Commit", "Restart", "RestartInfo"} =>
                  /\ Chk("C10", rec.digest = TwinAt(h').digest)
                  /\ Chk("C19", rec.custom = TwinAt(h').customNoUp)      \* custom data are what they are on a chain that never upgraded
                  /\ UpgradeAt # 0 =>
                        /\ Chk("C19", rec.up.versionMapOk)
                        /\ Chk("C19", IF h' >= UpgradeAt THEN rec.up.doneHeight > 0 /\ ~rec.up.planPending ELSE rec.up.doneHeight = 0)
                        /\ Chk("C19", upgraded' <=> (rec.up.doneHeight > 0))

TraceNext ==
    /\ l <= Len(Log)
    /\ l' = l + 1
    /\ LET rec == Log[l] IN
         IF rec.ev = "init" THEN Reset(rec)
         ELSE IF rec.ev = "twinfail"
              \* the never-stopped node itself could not process the history (BeginBlock / EndBlock halted): with an upgrade planned that is the upgrade
              \* block not running to completion (C19), otherwise a block halted by state that transactions left behind (C17)
              THEN /\ UNCHANGED <<vars, twin, cur>> /\ run' = rec.run
                   /\ PrintT(<<"VIOLATION", IF rec.upgradeAt # 0 THEN "C19" ELSE "C17", rec.run, 0, l>>)
              ELSE Event(rec)

TraceSpec == TraceInit /\ [][TraceNext]_tvars

TraceAccepted == TLCGet("stats").diameter = Len(Log) + 1
=============================================================================
