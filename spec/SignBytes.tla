------------------------------ MODULE SignBytes ------------------------------
(***************************************************************************)
(* C14: what an account signs, per sign mode, for the 14 custom messages.  *)
(*                                                                         *)
(*  DIRECT / DIRECT_AUX : the body bytes carry, per message, the type URL  *)
(*      and the proto3 encoding of the fields (default values omitted).    *)
(*  LEGACY_AMINO_JSON   : the sorted JSON of msg.GetSignBytes().  The aol  *)
(*      and did messages marshal through a MODULE codec on which no amino  *)
(*      names are registered, so the JSON has NO type wrapper, and every   *)
(*      field is `omitempty`.  The pnft messages do not implement          *)
(*      LegacyMsg: the mode is not available for them at all.              *)
(*                                                                         *)
(* The message alphabet is MC.tla's (all 14 types, every field value from  *)
(* a small set that includes the empty value).  TLC checks injectivity of  *)
(* the two structures over all ordered pairs; the amino structure is NOT   *)
(* injective, in exactly the classes described by KnownAminoCollision (a   *)
(* recorded finding, DESIGN.md section 7 D8) - any other collision is a    *)
(* violation.  The harness computes the REAL sign bytes of every message   *)
(* of the alphabet; SignBytesTrace.tla checks that real collisions are     *)
(* exactly the specification's.                                            *)
(***************************************************************************)
EXTENDS MC

NE(name, v) == IF v = "" \/ v = "none" THEN {} ELSE {<<name, v>>}

\* the JSON object of msg.GetSignBytes(): field name -> value, empty fields omitted
AminoFields(m) ==
    CASE m.type = "aol.CreateTopic"  -> NE("topic_name", m.topic) \cup NE("description", m.desc) \cup NE("owner_address", m.owner)
      [] m.type = "aol.AddWriter"    -> NE("topic_name", m.topic) \cup NE("moniker", m.mon) \cup NE("description", m.desc)
                                        \cup NE("writer_address", m.writer) \cup NE("owner_address", m.owner)
      [] m.type = "aol.DeleteWriter" -> NE("topic_name", m.topic) \cup NE("writer_address", m.writer) \cup NE("owner_address", m.owner)
      [] m.type = "aol.AddRecord"    -> NE("topic_name", m.topic) \cup NE("key", m.key) \cup NE("value", m.val)
                                        \cup NE("writer_address", m.writer) \cup NE("owner_address", m.owner) \cup NE("fee_payer_address", m.feePayer)
      [] m.type \in {"did.Create", "did.Update"} ->
            {<<"did", m.did>>, <<"document", m.doc>>, <<"verification_method_id", <<m.vmDid, m.vm>>>>, <<"signature", m.proof>>, <<"from_address", m.from>>}
      [] m.type = "did.Deactivate" ->
            {<<"did", m.did>>, <<"verification_method_id", <<m.vmDid, m.vm>>>>, <<"signature", m.proof>>, <<"from_address", m.from>>}
      [] OTHER -> {<<"unavailable", m>>}

AminoAvailable(m) == m.type \in {"aol.CreateTopic", "aol.AddWriter", "aol.DeleteWriter", "aol.AddRecord", "did.Create", "did.Update", "did.Deactivate"}

\* DIRECT: type URL + fields; two different messages differ in the type or in a field
DirectStruct(m) == m

\* the recorded finding: messages of DIFFERENT types whose non-empty fields coincide
KnownAminoCollision(a, b) ==
    \/ {a.type, b.type} \subseteq {"aol.AddWriter", "aol.DeleteWriter", "aol.AddRecord"} /\ a.type # b.type
    \/ {a.type, b.type} = {"did.Create", "did.Update"}

VARIABLES m1, m2
sbvars == <<m1, m2>>

SBInit == Init /\ m1 \in Msgs /\ m2 = [type |-> "none"]
SBNext == m2.type = "none" /\ m2' \in Msgs /\ m1' = m1 /\ UNCHANGED mcvars
SBSpec == SBInit /\ [][SBNext]_<<sbvars, mcvars>>

Pair == m2.type # "none" /\ m1 # m2

DirectInjective == Pair => DirectStruct(m1) # DirectStruct(m2)

AminoInjectiveUpToKnown ==
    (Pair /\ AminoAvailable(m1) /\ AminoAvailable(m2) /\ AminoFields(m1) = AminoFields(m2)) => KnownAminoCollision(m1, m2)

\* the finding is real in the model as well (non-vacuity of the exception)
W_NoKnownCollision == ~(Pair /\ AminoAvailable(m1) /\ AminoAvailable(m2) /\ AminoFields(m1) = AminoFields(m2))

\* every message of the alphabet, once, with a canonical rendering of its amino structure
CaseDump == m2.type # "none" \/ PrintT(<<"CASE", m1, IF AminoAvailable(m1) THEN ToJson(AminoFields(m1)) ELSE "unavailable">>)
=============================================================================
