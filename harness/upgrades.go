package main

// upgrades.go — extracts, from the code, the constants of Upgrades.tla (C19 static part).

import (
	"encoding/json"
	"fmt"
	"go/ast"
	"go/parser"
	"go/token"
	"os"
	"path/filepath"
	"sort"
	"strconv"

	dbm "github.com/cometbft/cometbft-db"
	"github.com/cometbft/cometbft/libs/log"

	"github.com/medibloc/panacea-core/v2/app"
)

func cmdUpgrades(args []string) error {
	repo := os.Getenv("VERIF_REPO")
	if repo == "" {
		repo = "/repo"
	}
	home, _ := os.MkdirTemp("", "verif-up-")
	defer os.RemoveAll(home)
	a := newApp(dbm.NewMemDB(), home, log.NewNopLogger())
	var desc []M
	for _, u := range app.Upgrades {
		desc = append(desc, M{"name": u.UpgradeName, "added": strList(u.StoreUpgrades.Added), "deleted": strList(u.StoreUpgrades.Deleted),
			"renamed": len(u.StoreUpgrades.Renamed)})
	}
	var mounted []string
	for name := range a.GetKVStoreKey() {
		mounted = append(mounted, name)
	}
	sort.Strings(mounted)
	// the module list that the FIRST descriptor's handler declares as already present (fromVM in its source)
	first := ""
	if len(app.Upgrades) > 0 {
		first = app.Upgrades[0].UpgradeName
	}
	dir := filepath.Join(repo, "app", "upgrades", "v"+sanitize(first))
	mods, err := fromVMKeys(dir)
	if err != nil {
		return err
	}
	out := M{"descriptors": desc, "mounted": strList(mounted), "firstDescriptorFromVM": strList(mods), "firstDir": dir}
	bz, _ := json.Marshal(out)
	fmt.Println(string(bz))
	return nil
}

func sanitize(name string) string { // "v2.0.5" -> "2_0_5"
	out := []rune{}
	for _, r := range name {
		switch {
		case r == 'v':
		case r == '.':
			out = append(out, '_')
		default:
			out = append(out, r)
		}
	}
	return string(out)
}

func strList(l []string) []any {
	out := []any{}
	for _, s := range l {
		out = append(out, s)
	}
	return out
}

// fromVMKeys parses the upgrade package and returns the string keys of the composite literal assigned to `fromVM`.
func fromVMKeys(dir string) ([]string, error) {
	fset := token.NewFileSet()
	pkgs, err := parser.ParseDir(fset, dir, nil, 0)
	if err != nil {
		return nil, err
	}
	var keys []string
	for _, p := range pkgs {
		for _, f := range p.Files {
			ast.Inspect(f, func(n ast.Node) bool {
				as, ok := n.(*ast.AssignStmt)
				if !ok || len(as.Lhs) != 1 || len(as.Rhs) != 1 {
					return true
				}
				id, ok := as.Lhs[0].(*ast.Ident)
				if !ok || id.Name != "fromVM" {
					return true
				}
				cl, ok := as.Rhs[0].(*ast.CompositeLit)
				if !ok {
					return true
				}
				for _, e := range cl.Elts {
					kv, ok := e.(*ast.KeyValueExpr)
					if !ok {
						continue
					}
					if bl, ok := kv.Key.(*ast.BasicLit); ok && bl.Kind == token.STRING {
						s, _ := strconv.Unquote(bl.Value)
						keys = append(keys, s)
					}
				}
				return true
			})
		}
	}
	if len(keys) == 0 {
		return nil, fmt.Errorf("no fromVM literal found in %s", dir)
	}
	sort.Strings(keys)
	return keys, nil
}
