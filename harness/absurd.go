package main

// absurd.go — C17: query requests and key-store files of every shape Shapes.tla enumerates, offered to the real query
// handlers (through the ABCI Query path and directly) and to KeyStore.Load. Oracle: a value or an error, never a panic.

import (
	"context"
	"crypto/aes"
	"crypto/cipher"
	"crypto/sha256"
	"encoding/base64"
	"encoding/hex"
	"encoding/json"
	"fmt"
	"math"
	"os"
	"path/filepath"
	"strings"

	sdk "github.com/cosmos/cosmos-sdk/types"
	"github.com/cosmos/cosmos-sdk/types/query"
	"github.com/cosmos/gogoproto/proto"
	"golang.org/x/crypto/pbkdf2"
	"golang.org/x/crypto/sha3"

	didcrypto "github.com/medibloc/panacea-core/v2/x/did/client/crypto"
	aoltypes "github.com/medibloc/panacea-core/v2/x/aol/types"
	didtypes "github.com/medibloc/panacea-core/v2/x/did/types"
	pnfttypes "github.com/medibloc/panacea-core/v2/x/pnft/types"
)

func qText(l string) string {
	switch l {
	case "len255":
		return rep("a", 255)
	case "len256":
		return rep("a", 256)
	case "len300", "long300":
		return rep("a", 300)
	case "invalidutf8":
		return "a\xff\xfeb"
	}
	return shapeText(l)
}

func (c *Chain) qAddr(l string) string {
	switch l {
	case "invalidutf8":
		return "panacea1\xff\xfe"
	case "long300":
		return "panacea1" + rep("q", 300)
	}
	return c.shapeAddr(l)
}

func qPag(l string) *query.PageRequest {
	switch l {
	case "nil":
		return nil
	case "l1":
		return &query.PageRequest{Limit: 1}
	case "l0":
		return &query.PageRequest{Limit: 0}
	case "hugeLimit":
		return &query.PageRequest{Limit: math.MaxUint64}
	case "hugeOffset":
		return &query.PageRequest{Offset: math.MaxUint64, Limit: 2}
	case "keyGarbage":
		return &query.PageRequest{Key: []byte{0xff, 0x00, 0xfe, 0x30}, Limit: 2}
	case "keyAndOffset":
		return &query.PageRequest{Key: []byte{1, 97}, Offset: 1, Limit: 2}
	case "reverse":
		return &query.PageRequest{Reverse: true, Limit: 2}
	case "countTotal":
		return &query.PageRequest{CountTotal: true, Limit: 1}
	}
	return nil
}

func qOff(l string) uint64 {
	switch l {
	case "one":
		return 1
	case "max":
		return math.MaxUint64
	case "big":
		return 1 << 40
	}
	return 0
}

func qDid(l string) string {
	switch l {
	case "ok":
		return base64.StdEncoding.EncodeToString([]byte(didDict["d1"]))
	case "empty":
		return ""
	case "notb64":
		return "***not-base64***"
	case "b64garbage":
		return base64.StdEncoding.EncodeToString([]byte{0xff, 0x00, 0x01})
	case "b64long":
		return base64.StdEncoding.EncodeToString([]byte(rep("x", 5000)))
	}
	return l
}

// absurdCase runs one query or key-store case under recover.
func (c *Chain) absurdCase(cs M) (rec M) {
	ty := str(cs, "type")
	f := cs["f"].(M)
	rec = M{"k": "absurd", "c": M{"type": ty, "f": f}, "panic": false, "outcome": ""}
	defer func() {
		if r := recover(); r != nil {
			rec["panic"] = true
			rec["outcome"] = fmt.Sprintf("PANIC: %v", r)
		}
	}()
	if ty == "ks.Load" {
		rec["outcome"] = ksCase(f)
		return
	}
	g := sdk.WrapSDKContext(c.Ctx())
	var path string
	var req proto.Message
	var direct func(context.Context) error
	aol, did, pn := c.App.AolKeeper, c.App.DidKeeper, c.App.PnftKeeper
	via := str(f, "via")
	switch ty {
	case "q.aol.Topic":
		r := &aoltypes.QueryTopicRequest{OwnerAddress: c.qAddr(str(f, "qowner")), TopicName: qText(str(f, "qtopic"))}
		path, req = "/panacea.aol.v2.Query/Topic", r
		direct = func(g context.Context) error {
			if via == "nilreq" {
				_, e := aol.Topic(g, nil)
				return e
			}
			_, e := aol.Topic(g, r)
			return e
		}
	case "q.aol.Topics":
		r := &aoltypes.QueryTopicsRequest{OwnerAddress: c.qAddr(str(f, "qowner")), Pagination: qPag(str(f, "pag"))}
		path, req = "/panacea.aol.v2.Query/Topics", r
		direct = func(g context.Context) error {
			if via == "nilreq" {
				_, e := aol.Topics(g, nil)
				return e
			}
			_, e := aol.Topics(g, r)
			return e
		}
	case "q.aol.Writer":
		r := &aoltypes.QueryWriterRequest{OwnerAddress: c.qAddr(str(f, "qowner")), TopicName: qText(str(f, "qtopic")), WriterAddress: c.qAddr(str(f, "qwriter"))}
		path, req = "/panacea.aol.v2.Query/Writer", r
		direct = func(g context.Context) error {
			if via == "nilreq" {
				_, e := aol.Writer(g, nil)
				return e
			}
			_, e := aol.Writer(g, r)
			return e
		}
	case "q.aol.Writers":
		r := &aoltypes.QueryWritersRequest{OwnerAddress: c.qAddr(str(f, "qowner")), TopicName: qText(str(f, "qtopic")), Pagination: qPag(str(f, "pag"))}
		path, req = "/panacea.aol.v2.Query/Writers", r
		direct = func(g context.Context) error {
			if via == "nilreq" {
				_, e := aol.Writers(g, nil)
				return e
			}
			_, e := aol.Writers(g, r)
			return e
		}
	case "q.aol.Record":
		r := &aoltypes.QueryRecordRequest{OwnerAddress: c.qAddr(str(f, "qowner")), TopicName: qText(str(f, "qtopic")), Offset: qOff(str(f, "qoffset"))}
		path, req = "/panacea.aol.v2.Query/Record", r
		direct = func(g context.Context) error {
			if via == "nilreq" {
				_, e := aol.Record(g, nil)
				return e
			}
			_, e := aol.Record(g, r)
			return e
		}
	case "q.did.DID":
		r := &didtypes.QueryDIDRequest{DidBase64: qDid(str(f, "qdid"))}
		path, req = "/panacea.did.v2.Query/DID", r
		direct = func(g context.Context) error {
			if via == "nilreq" {
				_, e := did.DID(g, nil)
				return e
			}
			_, e := did.DID(g, r)
			return e
		}
	case "q.pnft.Denom":
		r := &pnfttypes.QueryDenomRequest{Id: qText(str(f, "qid"))}
		path, req = "/panacea.pnft.v2.Query/Denom", r
		direct = func(g context.Context) error {
			if via == "nilreq" {
				_, e := pn.Denom(g, nil)
				return e
			}
			_, e := pn.Denom(g, r)
			return e
		}
	case "q.pnft.Denoms":
		r := &pnfttypes.QueryDenomsRequest{Pagination: qPag(str(f, "pag"))}
		path, req = "/panacea.pnft.v2.Query/Denoms", r
		direct = func(g context.Context) error {
			if via == "nilreq" {
				_, e := pn.Denoms(g, nil)
				return e
			}
			_, e := pn.Denoms(g, r)
			return e
		}
	case "q.pnft.DenomsByOwner":
		r := &pnfttypes.QueryDenomsByOwnerRequest{Owner: c.qAddr(str(f, "qowner"))}
		path, req = "/panacea.pnft.v2.Query/DenomsByOwner", r
		direct = func(g context.Context) error {
			if via == "nilreq" {
				_, e := pn.DenomsByOwner(g, nil)
				return e
			}
			_, e := pn.DenomsByOwner(g, r)
			return e
		}
	case "q.pnft.PNFT":
		r := &pnfttypes.QueryPNFTRequest{DenomId: qText(str(f, "qdenom")), Id: qText(str(f, "qid"))}
		path, req = "/panacea.pnft.v2.Query/PNFT", r
		direct = func(g context.Context) error {
			if via == "nilreq" {
				_, e := pn.PNFT(g, nil)
				return e
			}
			_, e := pn.PNFT(g, r)
			return e
		}
	case "q.pnft.PNFTs":
		r := &pnfttypes.QueryPNFTsRequest{DenomId: qText(str(f, "qdenom"))}
		path, req = "/panacea.pnft.v2.Query/PNFTs", r
		direct = func(g context.Context) error {
			if via == "nilreq" {
				_, e := pn.PNFTs(g, nil)
				return e
			}
			_, e := pn.PNFTs(g, r)
			return e
		}
	case "q.pnft.PNFTsByDenomOwner":
		r := &pnfttypes.QueryPNFTsByDenomOwnerRequest{DenomId: qText(str(f, "qdenom")), Owner: c.qAddr(str(f, "qowner"))}
		path, req = "/panacea.pnft.v2.Query/PNFTsByDenomOwner", r
		direct = func(g context.Context) error {
			if via == "nilreq" {
				_, e := pn.PNFTsByDenomOwner(g, nil)
				return e
			}
			_, e := pn.PNFTsByDenomOwner(g, r)
			return e
		}
	default:
		rec["outcome"] = "unknown-type"
		return
	}
	if via == "abci" {
		bz, _ := proto.Marshal(req)
		r, p := c.Query(path, bz, 0)
		rec["panic"] = p
		rec["outcome"] = fmt.Sprintf("abci code %d %s", r.Code, r.Codespace)
		return
	}
	if err := direct(g); err != nil {
		rec["outcome"] = "error"
	} else {
		rec["outcome"] = "value"
	}
	return
}

// ---- key-store files

func keccak(data ...[]byte) []byte {
	h := sha3.NewLegacyKeccak256()
	for _, d := range data {
		h.Write(d)
	}
	return h.Sum(nil)
}

func ksHex(l string, ok []byte) string {
	switch l {
	case "ok":
		return hex.EncodeToString(ok)
	case "empty":
		return ""
	case "short":
		return hex.EncodeToString(ok[:len(ok)-1])
	case "long":
		return hex.EncodeToString(append(append([]byte{}, ok...), 0x01))
	case "nonhex":
		return "zz-not-hex"
	}
	return l
}

func ksCase(f M) string {
	dir, err := os.MkdirTemp("", "verif-ksf-")
	if err != nil {
		return "setup-error"
	}
	defer os.RemoveAll(dir)
	ks, err := didcrypto.NewKeyStore(dir)
	if err != nil {
		return "setup-error"
	}
	pw := "pw"
	salt := []byte("0123456789abcdef0123456789abcdef")
	iv := []byte("0123456789abcdef")
	key := []byte("0123456789abcdef0123456789abcdef")
	c := map[string]int{"one": 1, "zero": 0, "neg": -1, "std": 2}[str(f, "ksc")]
	dklen := map[string]int{"d32": 32, "dneg": -1, "d0": 0, "d1": 1, "d16": 16, "d31": 31, "d33": 33, "d1024": 1024, "d1025": 1025, "dmaxint": 1 << 20}[str(f, "ksdklen")]
	// a consistent file for the baseline parameters: derive, encrypt, MAC like the key store does
	dkl := dklen
	if dkl < 32 || dkl > 4096 {
		dkl = 32
	}
	iter := c
	if iter < 1 {
		iter = 1
	}
	derived := pbkdf2.Key([]byte(pw), salt, iter, dkl, sha256.New)
	block, _ := aes.NewCipher(derived[:16])
	ct := make([]byte, len(key))
	cipher.NewCTR(block, iv).XORKeyStream(ct, key)
	mac := keccak(derived[16:32], ct)
	strOf := func(l, std string) string {
		switch l {
		case "std":
			return std
		case "other":
			return "something-else"
		}
		return ""
	}
	macS := map[string]string{"ok": hex.EncodeToString(mac), "wrong": hex.EncodeToString(keccak([]byte("x"))), "empty": "", "nonhex": "zz"}[str(f, "ksmac")]
	file := M{
		"version": map[string]int{"v3": 3, "v2": 2, "v0": 0}[str(f, "ksver")],
		"id":      "id", "address": "addr",
		"crypto": M{
			"cipher":       strOf(str(f, "kscipher"), "aes-128-ctr"),
			"ciphertext":   ksHex(str(f, "ksct"), ct),
			"cipherparams": M{"iv": ksHex(str(f, "ksiv"), iv)},
			"kdf":          strOf(str(f, "kskdf"), "pbkdf2"),
			"kdfparams":    M{"c": c, "dklen": dklen, "prf": strOf(str(f, "ksprf"), "hmac-sha256"), "salt": ksHex(str(f, "kssalt"), salt)},
			"mac":          macS,
		},
	}
	bz, _ := json.Marshal(file)
	switch str(f, "ksjson") {
	case "truncated":
		bz = bz[:len(bz)/2]
	case "notjson":
		bz = []byte("\x00\x01 not json at all")
	case "wrongtypes":
		bz = []byte(`{"version":"3","crypto":{"kdfparams":{"c":"x","dklen":[1]},"cipherparams":7}}`)
	case "emptyobj":
		bz = []byte(`{}`)
	}
	path := filepath.Join(dir, "k.json")
	if str(f, "ksjson") != "missingfile" {
		os.WriteFile(path, bz, 0o600)
	}
	pass := map[string]string{"right": pw, "wrong": "nope", "empty": ""}[str(f, "kspw")]
	got, err := ks.Load(path, pass)
	if err != nil {
		return "error"
	}
	if string(got) == string(key) {
		return "key"
	}
	return "othervalue"
}

var _ = strings.Repeat
