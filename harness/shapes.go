package main

// shapes.go — C16/C17: concretises the field-shape cases enumerated by TLC from Shapes.tla into real messages, runs the
// real stateless validation on the message AS DECODED FROM ITS BYTES, then signer extraction and the full DeliverTx
// pipeline (also wrapped in authz.MsgExec), and records what happened.

import (
	"bufio"
	"encoding/json"
	"fmt"
	"io"
	"os"
	"strings"

	"github.com/btcsuite/btcutil/base58"
	cryptotypes "github.com/cosmos/cosmos-sdk/crypto/types"
	sdk "github.com/cosmos/cosmos-sdk/types"
	"github.com/cosmos/cosmos-sdk/types/bech32"
	"github.com/cosmos/cosmos-sdk/types/tx/signing"
	"github.com/cosmos/cosmos-sdk/x/authz"

	aoltypes "github.com/medibloc/panacea-core/v2/x/aol/types"
	didtypes "github.com/medibloc/panacea-core/v2/x/did/types"
	pnfttypes "github.com/medibloc/panacea-core/v2/x/pnft/types"
)

func rep(s string, n int) string { return strings.Repeat(s, n) }

func shapeText(l string) string {
	switch l {
	case "c1":
		return "a"
	case "c70":
		return rep("a", 70)
	case "punct":
		return "a.b-_9"
	case "len0", "empty":
		return ""
	case "len1":
		return "x"
	case "len71":
		return rep("a", 71)
	case "len140":
		return rep("a", 140)
	case "len255":
		return rep("a", 255)
	case "len256":
		return rep("a", 256)
	case "len257":
		return rep("a", 257)
	case "len10000", "long10000":
		return rep("a", 10000)
	case "len4999":
		return rep("d", 4999)
	case "len5000":
		return rep("d", 5000)
	case "len5001":
		return rep("d", 5001)
	case "len69":
		return rep("k", 69)
	case "len70":
		return rep("k", 70)
	case "space":
		return "a b"
	case "slash":
		return "a/b"
	case "ctrl":
		return "a\x01\nb"
	case "utf8":
		return "é"
	case "trailnl":
		return "a\n"
	case "nul":
		return "a\x00b"
	case "utf8_70b":
		return rep("a", 68) + "é"
	case "mb5000":
		return rep("é", 2500)
	case "mb5001":
		return rep("한", 1667)
	case "mb_5000runes":
		return rep("한", 5000)
	case "bin70":
		return rep("\xff", 70)
	case "bin71":
		return rep("\xff", 71)
	case "bin5000":
		return rep("\xff", 5000)
	case "bin5001":
		return rep("\xff", 5001)
	case "caret":
		return "a^b"
	case "bracket":
		return "t[1]"
	case "backslash":
		return "a\\b"
	case "backtick":
		return "a`b"
	case "at":
		return "a@b"
	case "brace":
		return "a{b}"
	case "colon":
		return "a:b"
	case "plus":
		return "a+b"
	case "upperlower":
		return "AZaz09"
	case "ok":
		return "a"
	case "long300":
		return rep("a", 300)
	}
	return l
}

func (c *Chain) shapeAddr(l string) string {
	a1 := c.Accts["a1"]
	switch l {
	case "ok20":
		return a1.Bech
	case "ok32":
		return sdk.AccAddress(append(append([]byte{}, a1.Addr...), []byte("twelve-bytes")...)).String()
	case "wronghrp":
		s, _ := bech32.ConvertAndEncode("cosmos", a1.Addr)
		return s
	case "valoper":
		s, _ := bech32.ConvertAndEncode("panaceavaloper", a1.Addr)
		return s
	case "badsum":
		b := []byte(a1.Bech)
		if b[len(b)-1] == 'q' {
			b[len(b)-1] = 'p'
		} else {
			b[len(b)-1] = 'q'
		}
		return string(b)
	case "empty", "none":
		return ""
	case "upper":
		return strings.ToUpper(a1.Bech)
	case "mixedcase":
		b := []byte(a1.Bech)
		b[len(b)-2] = strings.ToUpper(string(b[len(b)-2]))[0]
		if b[len(b)-2] >= '0' && b[len(b)-2] <= '9' {
			b[0] = 'P'
		}
		return string(b)
	case "garbage":
		return "abc"
	case "len0payload":
		s, _ := bech32.ConvertAndEncode("panacea", []byte{})
		return s
	}
	return l
}

func shapeDid(l string) string {
	base := didDict["d1"]
	switch l {
	case "ok44":
		return base
	case "ok32":
		return "did:panacea:" + rep("2", 32)
	case "len31":
		return "did:panacea:" + rep("2", 31)
	case "len45":
		return "did:panacea:" + rep("2", 45)
	case "nonb58":
		return "did:panacea:" + rep("2", 31) + "0"
	case "wrongmethod":
		return "did:other:" + rep("2", 40)
	case "upperprefix":
		return "DID:panacea:" + rep("2", 40)
	case "empty":
		return ""
	case "trailnl":
		return base + "\n"
	case "nomethod":
		return "did:panacea"
	}
	return l
}

func shapeDoc(f M, did string) *didtypes.DIDDocument {
	other := didDict["d2"]
	switch str(f, "doc") {
	case "nil":
		return nil
	case "empty":
		return &didtypes.DIDDocument{}
	}
	id := did
	if str(f, "doc") == "idmismatch" {
		id = other
	}
	key := didKeys["k1"]
	suffix := map[string]string{"s1": "k", "s128": rep("k", 128), "s0": "", "s129": rep("k", 129), "space": "a b", "tab": "a\tb", "newline": "a\nb",
		"hash2": "k#j", "hash2space": "k#a b", "hash2long": "k#" + rep("x", 200), "hash2s128": "k#" + rep("x", 126)}
	vmid := id + "#k"
	switch l := str(f, "vmid"); l {
	case "foreign":
		vmid = other + "#k"
	case "nohash":
		vmid = id + "k"
	default:
		if s, ok := suffix[l]; ok {
			vmid = id + "#" + s
		}
	}
	ktype := map[string]string{"es19": didtypes.ES256K_2019, "es18": didtypes.ES256K_2018, "ed25": didtypes.ED25519_2018, "unknown": "FooKey2020", "empty": ""}[str(f, "keytype")]
	pub := map[string]string{"b58": key.B58, "nonb58": "0OIl", "empty": "", "b58short": "2"}[str(f, "pubkey")]
	vm := &didtypes.VerificationMethod{Id: vmid, Type: ktype, Controller: id, PublicKeyBase58: pub}
	doc := &didtypes.DIDDocument{Id: id, VerificationMethods: []*didtypes.VerificationMethod{vm}}
	relOne := func(kind string) didtypes.VerificationRelationship {
		switch kind {
		case "ref":
			return didtypes.NewVerificationRelationship(vmid)
		case "dangling":
			return didtypes.NewVerificationRelationship(id + "#zzz")
		case "refforeign":
			return didtypes.NewVerificationRelationship(other + "#k")
		case "ded":
			return didtypes.NewVerificationRelationshipDedicated(didtypes.VerificationMethod{Id: id + "#d1", Type: didtypes.ES256K_2019, Controller: id, PublicKeyBase58: key.B58})
		case "dedbadkey":
			return didtypes.NewVerificationRelationshipDedicated(didtypes.VerificationMethod{Id: id + "#d2", Type: didtypes.ES256K_2019, Controller: id, PublicKeyBase58: "0OIl"})
		}
		return didtypes.VerificationRelationship{} // nilcontent
	}
	if parts := strings.Split(str(f, "rel"), "_"); len(parts) == 2 {
		doc.Authentications = []didtypes.VerificationRelationship{relOne(parts[0]), relOne(parts[1])}
	}
	switch str(f, "rel") {
	case "ref":
		doc.Authentications = []didtypes.VerificationRelationship{didtypes.NewVerificationRelationship(vmid)}
	case "dangling":
		doc.Authentications = []didtypes.VerificationRelationship{didtypes.NewVerificationRelationship(id + "#zzz")}
	case "refforeign":
		doc.Authentications = []didtypes.VerificationRelationship{didtypes.NewVerificationRelationship(other + "#k")}
	case "ded":
		doc.Authentications = []didtypes.VerificationRelationship{didtypes.NewVerificationRelationshipDedicated(didtypes.VerificationMethod{Id: id + "#d1", Type: didtypes.ES256K_2019, Controller: id, PublicKeyBase58: key.B58})}
	case "dedbadid":
		doc.Authentications = []didtypes.VerificationRelationship{didtypes.NewVerificationRelationshipDedicated(didtypes.VerificationMethod{Id: other + "#d1", Type: didtypes.ES256K_2019, Controller: id, PublicKeyBase58: key.B58})}
	case "dedbadkey":
		doc.Authentications = []didtypes.VerificationRelationship{didtypes.NewVerificationRelationshipDedicated(didtypes.VerificationMethod{Id: id + "#d1", Type: didtypes.ES256K_2019, Controller: id, PublicKeyBase58: "0OIl"})}
	case "nilcontent":
		doc.Authentications = []didtypes.VerificationRelationship{{}}
	}
	w3c := didtypes.ContextDIDV1
	switch str(f, "ctx") {
	case "w3c":
		doc.Contexts = &didtypes.JSONStringOrStrings{w3c}
	case "other":
		doc.Contexts = &didtypes.JSONStringOrStrings{"https://x.example/ctx"}
	case "w3c_w3c":
		doc.Contexts = &didtypes.JSONStringOrStrings{w3c, w3c}
	case "w3c_empty":
		doc.Contexts = &didtypes.JSONStringOrStrings{w3c, ""}
	case "w3c_x":
		doc.Contexts = &didtypes.JSONStringOrStrings{w3c, "https://x.example/ctx"}
	case "w3c_x_y":
		doc.Contexts = &didtypes.JSONStringOrStrings{w3c, "https://x.example/ctx", "https://y.example/ctx"}
	case "w3c_x_w3c":
		doc.Contexts = &didtypes.JSONStringOrStrings{w3c, "https://x.example/ctx", w3c}
	case "w3c_x_y_x":
		doc.Contexts = &didtypes.JSONStringOrStrings{w3c, "https://x.example/ctx", "https://y.example/ctx", "https://x.example/ctx"}
	case "x_w3c":
		doc.Contexts = &didtypes.JSONStringOrStrings{"https://x.example/ctx", w3c}
	case "emptylist":
		doc.Contexts = &didtypes.JSONStringOrStrings{}
	}
	switch str(f, "ctl") {
	case "emptylist":
		doc.Controller = &didtypes.JSONStringOrStrings{}
	case "emptystr":
		doc.Controller = &didtypes.JSONStringOrStrings{""}
	case "did":
		doc.Controller = &didtypes.JSONStringOrStrings{other}
	case "bad":
		doc.Controller = &didtypes.JSONStringOrStrings{"x"}
	case "did_bad":
		doc.Controller = &didtypes.JSONStringOrStrings{other, "x"}
	}
	svc := func(id, ty, ep string) *didtypes.Service { return &didtypes.Service{Id: id, Type: ty, ServiceEndpoint: ep} }
	switch str(f, "svc") {
	case "complete":
		doc.Services = []*didtypes.Service{svc("s1", "T", "https://e")}
	case "two":
		doc.Services = []*didtypes.Service{svc("s1", "T", "https://e"), svc("s2", "T", "https://f")}
	case "two_secondnoid":
		doc.Services = []*didtypes.Service{svc("s1", "T", "https://e"), svc("", "T", "https://f")}
	case "two_secondnotype":
		doc.Services = []*didtypes.Service{svc("s1", "T", "https://e"), svc("s2", "", "https://f")}
	case "two_firstnoendpoint":
		doc.Services = []*didtypes.Service{svc("s1", "T", ""), svc("s2", "T", "https://f")}
	case "noid":
		doc.Services = []*didtypes.Service{svc("", "T", "https://e")}
	case "notype":
		doc.Services = []*didtypes.Service{svc("s1", "", "https://e")}
	case "noendpoint":
		doc.Services = []*didtypes.Service{svc("s1", "T", "")}
	}
	switch str(f, "doc") {
	case "novm":
		doc.VerificationMethods = nil
	case "noauth":
		doc.Authentications = nil
	case "rich":
		doc.AssertionMethods = []didtypes.VerificationRelationship{didtypes.NewVerificationRelationship(vmid)}
		doc.KeyAgreements = []didtypes.VerificationRelationship{didtypes.NewVerificationRelationshipDedicated(didtypes.VerificationMethod{Id: id + "#ka", Type: didtypes.X25519_2019, Controller: id, PublicKeyBase58: key.B58})}
		doc.CapabilityInvocations = []didtypes.VerificationRelationship{didtypes.NewVerificationRelationship(vmid)}
		doc.CapabilityDelegations = []didtypes.VerificationRelationship{didtypes.NewVerificationRelationship(vmid)}
	}
	return doc
}

func shapeSig(l string, doc *didtypes.DIDDocument) []byte {
	switch l {
	case "empty":
		return nil
	case "one":
		return []byte{1}
	}
	if doc == nil {
		doc = &didtypes.DIDDocument{}
	}
	sig, _ := didtypes.Sign(doc, 0, didKeys["k1"].Priv)
	return sig
}

func shapeVmRef(l, did string) string {
	switch l {
	case "empty":
		return ""
	case "long":
		return did + "#" + rep("k", 300)
	}
	return did + "#k"
}

func (c *Chain) shapeMsg(cs M) sdk.Msg {
	f := cs["f"].(M)
	t := func(k string) string { return shapeText(str(f, k)) }
	a := func(k string) string { return c.shapeAddr(str(f, k)) }
	switch str(cs, "type") {
	case "aol.CreateTopic":
		return &aoltypes.MsgCreateTopicRequest{TopicName: t("topic"), Description: t("desc"), OwnerAddress: a("owner")}
	case "aol.AddWriter":
		return &aoltypes.MsgAddWriterRequest{TopicName: t("topic"), Moniker: t("moniker"), Description: t("desc"), WriterAddress: a("writer"), OwnerAddress: a("owner")}
	case "aol.DeleteWriter":
		return &aoltypes.MsgDeleteWriterRequest{TopicName: t("topic"), WriterAddress: a("writer"), OwnerAddress: a("owner")}
	case "aol.AddRecord":
		return &aoltypes.MsgAddRecordRequest{TopicName: t("topic"), Key: []byte(t("key")), Value: []byte(t("value")), WriterAddress: a("writer"), OwnerAddress: a("owner"), FeePayerAddress: a("feepayer")}
	case "did.Create":
		did := shapeDid(str(f, "did"))
		doc := shapeDoc(f, did)
		return &didtypes.MsgCreateDIDRequest{Did: did, Document: doc, VerificationMethodId: shapeVmRef(str(f, "vmref"), did), Signature: shapeSig(str(f, "sig"), doc), FromAddress: a("from")}
	case "did.Update":
		did := shapeDid(str(f, "did"))
		doc := shapeDoc(f, did)
		return &didtypes.MsgUpdateDIDRequest{Did: did, Document: doc, VerificationMethodId: shapeVmRef(str(f, "vmref"), did), Signature: shapeSig(str(f, "sig"), doc), FromAddress: a("from")}
	case "did.Deactivate":
		did := shapeDid(str(f, "did"))
		return &didtypes.MsgDeactivateDIDRequest{Did: did, VerificationMethodId: shapeVmRef(str(f, "vmref"), did), Signature: shapeSig(str(f, "sig"), &didtypes.DIDDocument{Id: did}), FromAddress: a("from")}
	case "pnft.CreateDenom":
		return &pnfttypes.MsgCreateDenomRequest{Id: t("id"), Name: t("name"), Symbol: t("symbol"), Description: t("desc"), Uri: t("uri"), Data: t("data"), Creator: a("actor")}
	case "pnft.UpdateDenom":
		return &pnfttypes.MsgUpdateDenomRequest{Id: t("id"), Name: t("optname"), Symbol: t("optsymbol"), Description: t("desc"), Uri: t("uri"), Data: t("data"), Updater: a("actor")}
	case "pnft.DeleteDenom":
		return &pnfttypes.MsgDeleteDenomRequest{Id: t("id"), Remover: a("actor")}
	case "pnft.TransferDenom":
		return &pnfttypes.MsgTransferDenomRequest{Id: t("id"), Sender: a("actor"), Receiver: a("to")}
	case "pnft.Mint":
		return &pnfttypes.MsgMintPNFTRequest{DenomId: t("denom"), Id: t("id"), Name: t("name"), Description: t("desc"), Uri: t("uri"), Data: t("data"), Creator: a("actor")}
	case "pnft.Transfer":
		return &pnfttypes.MsgTransferPNFTRequest{DenomId: t("denom"), Id: t("id"), Sender: a("actor"), Receiver: a("to")}
	case "pnft.Burn":
		return &pnfttypes.MsgBurnPNFTRequest{DenomId: t("denom"), Id: t("id"), Burner: a("actor")}
	}
	return nil
}

// roundTrip encodes the message inside a transaction body and decodes it again: what the chain validates is what decodes from bytes.
func (c *Chain) roundTrip(msg sdk.Msg) (out sdk.Msg, err error) {
	defer func() {
		if r := recover(); r != nil {
			err = fmt.Errorf("encode/decode panic: %v", r)
		}
	}()
	b := c.App.TxConfig().NewTxBuilder()
	if err := b.SetMsgs(msg); err != nil {
		return nil, err
	}
	bz, err := c.App.TxConfig().TxEncoder()(b.GetTx())
	if err != nil {
		return nil, err
	}
	tx, err := c.App.TxConfig().TxDecoder()(bz)
	if err != nil {
		return nil, err
	}
	return tx.GetMsgs()[0], nil
}

var statelessCodes = map[string]bool{"aol/2": true, "aol/3": true, "aol/4": true, "did/3": true, "did/4": true, "did/6": true, "sdk/7": true, "undefined/1": true, "sdk/10": true}

func (c *Chain) customDump() string {
	return strings.Join(c.rawDump(c.Ctx(), "aol", "did", "pnft"), "\n")
}

func (c *Chain) shapeCase(cs M, viaExec bool) (rec M) {
	rec = M{"k": "msg", "c": M{"type": str(cs, "type"), "f": cs["f"]}, "vb": "", "signers": "skipped", "deliver": "skipped", "code": "", "stateChanged": false, "panic": false, "exec": viaExec, "enc": "ok"}
	var msg sdk.Msg
	func() {
		defer func() {
			if r := recover(); r != nil {
				rec["enc"] = "panic-building"
			}
		}()
		msg = c.shapeMsg(cs)
	}()
	if msg == nil {
		rec["enc"] = "unbuildable"
		return
	}
	dec, err := c.roundTrip(msg)
	if err != nil {
		// not "bytes that decode as a message": outside the quantifier
		rec["enc"] = "undecodable"
		return
	}
	func() {
		defer func() {
			if r := recover(); r != nil {
				rec["vb"], rec["panic"] = "panic", true
			}
		}()
		if e := dec.ValidateBasic(); e != nil {
			rec["vb"] = "reject"
		} else {
			rec["vb"] = "accept"
		}
	}()
	var signers []sdk.AccAddress
	if rec["vb"] == "accept" {
		func() {
			defer func() {
				if r := recover(); r != nil {
					rec["signers"], rec["panic"] = "panic", true
				}
			}()
			signers = dec.GetSigners()
			rec["signers"] = "ok"
		}()
	}
	// the full pipeline
	before := c.customDump()
	a1 := c.Accts["a1"]
	required := []*Acct{a1}
	keys := []cryptotypes.PrivKey{a1.Priv}
	if rec["vb"] == "accept" && len(signers) > 0 && !viaExec {
		required, keys = nil, nil
		for _, s := range signers {
			name := c.acctName(s.String())
			acc, ok := c.Accts[name]
			if !ok || acc.Priv == nil {
				acc = &Acct{Name: name, Addr: s, Bech: s.String()}
				keys = append(keys, a1.Priv)
			} else {
				keys = append(keys, acc.Priv)
			}
			required = append(required, acc)
		}
	}
	wrapped := []sdk.Msg{msg}
	if viaExec {
		e := authz.NewMsgExec(a1.Addr, []sdk.Msg{msg})
		wrapped = []sdk.Msg{&e}
	}
	var bz []byte
	func() {
		defer func() {
			if r := recover(); r != nil {
				err = fmt.Errorf("%v", r)
			}
		}()
		bz, err = c.BuildTx(wrapped, required, keys, 0, signing.SignMode_SIGN_MODE_DIRECT)
	}()
	if err != nil || bz == nil {
		rec["deliver"] = "unbuildable"
		return
	}
	res := c.DeliverRaw(bz)
	rec["deliver"], rec["code"] = res.Result, res.Code
	if res.Panic {
		rec["panic"] = true
	}
	rec["stateless"] = statelessCodes[res.Code]
	rec["stateChanged"] = c.customDump() != before
	return
}

// storedWithinLimits scans the custom stores for anything outside the published limits.
func (c *Chain) storedWithinLimits() []any {
	bad := []any{}
	ctx := c.Ctx()
	tk, ts := c.App.AolKeeper.GetAllTopics(ctx)
	nameOK := func(s string) bool {
		if len(s) < 1 || len(s) > 70 {
			return false
		}
		for _, r := range []byte(s) {
			if !(r >= 'a' && r <= 'z' || r >= 'A' && r <= 'Z' || r >= '0' && r <= '9' || r == '.' || r == '_' || r == '-') {
				return false
			}
		}
		return true
	}
	for i, k := range tk {
		if !nameOK(k.TopicName) || len(ts[i].Description) > 5000 {
			bad = append(bad, fmt.Sprintf("topic %q desc %d bytes", k.TopicName, len(ts[i].Description)))
		}
	}
	wk, ws := c.App.AolKeeper.GetAllWriters(ctx)
	for i, k := range wk {
		if !nameOK(k.TopicName) || len(ws[i].Moniker) > 70 || (ws[i].Moniker != "" && !nameOK(ws[i].Moniker)) || len(ws[i].Description) > 5000 {
			bad = append(bad, fmt.Sprintf("writer of %q moniker %q desc %d", k.TopicName, ws[i].Moniker, len(ws[i].Description)))
		}
	}
	rk, rs := c.App.AolKeeper.GetAllRecords(ctx)
	for i, k := range rk {
		if !nameOK(k.TopicName) || len(rs[i].Key) > 70 || len(rs[i].Value) > 5000 {
			bad = append(bad, fmt.Sprintf("record of %q key %d value %d", k.TopicName, len(rs[i].Key), len(rs[i].Value)))
		}
	}
	for _, d := range c.App.DidKeeper.ListDIDs(ctx) {
		doc := c.App.DidKeeper.GetDIDDocument(ctx, d)
		if !didtypes.ValidateDID(d) || doc.Document == nil || (!doc.Document.Empty() && (doc.Document.Id != d || !doc.Document.Valid())) {
			bad = append(bad, "did "+d)
		}
		_ = base58.Encode
	}
	denoms, _ := c.App.PnftKeeper.GetAllDenoms(ctx)
	for _, d := range denoms {
		if d.Id == "" || strings.Contains(d.Id, "\x00") || d.Name == "" || d.Symbol == "" {
			bad = append(bad, fmt.Sprintf("denom %q", d.Id))
		}
		toks, _ := c.App.PnftKeeper.GetPNFTsByDenomId(ctx, d.Id)
		for _, t := range toks {
			if t.Id == "" || strings.Contains(t.Id, "\x00") || t.Name == "" {
				bad = append(bad, fmt.Sprintf("token %q/%q", d.Id, t.Id))
			}
		}
	}
	return bad
}

func cmdShapes(args []string) error {
	if len(args) < 2 {
		return fmt.Errorf("usage: shapes <cases.ndjson> <obs-out.ndjson>")
	}
	c, err := NewChain(GenesisOpts{})
	if err != nil {
		return err
	}
	defer c.Close()
	in, err := os.Open(args[0])
	if err != nil {
		return err
	}
	defer in.Close()
	outF, err := os.Create(args[1])
	if err != nil {
		return err
	}
	defer outF.Close()
	out := bufio.NewWriterSize(outF, 1<<20)
	defer out.Flush()
	rd := bufio.NewReaderSize(in, 1<<20)
	n := 0
	emit := func(rec M) {
		bz, _ := json.Marshal(rec)
		out.Write(bz)
		out.WriteByte('\n')
	}
	for {
		line, err := rd.ReadBytes('\n')
		if len(strings.TrimSpace(string(line))) > 0 {
			var cs M
			if e := json.Unmarshal(line, &cs); e != nil {
				return e
			}
			switch str(cs, "k") {
			case "query", "keystore":
				ar := c.absurdCase(cs)
				ar["i"] = n
				emit(ar)
			default:
				rec := c.shapeCase(cs, false)
				rec["i"] = n
				emit(rec)
				if n%7 == 3 {
					r2 := c.shapeCase(cs, true)
					r2["i"] = n
					emit(r2)
				}
			}
			n++
			if n%500 == 0 {
				// a block boundary now and then: EndBlock must cope with whatever the transactions left behind
				_, eerr := c.EndBlock()
				emit(M{"k": "endblock", "panic": eerr != nil, "i": n})
				c.Commit()
				if berr := c.BeginBlock(); berr != nil {
					emit(M{"k": "endblock", "panic": true, "i": n})
				}
			}
		}
		if err == io.EOF {
			break
		}
		if err != nil {
			return err
		}
	}
	_, eerr := c.EndBlock()
	emit(M{"k": "endblock", "panic": eerr != nil, "i": n})
	emit(M{"k": "scan", "bad": c.storedWithinLimits(), "panic": false, "i": n})
	return nil
}
