package main

// export.go — genesis export / import round trip (C08, and the "export/import follows" clauses of C01, C05).

import (
	"bytes"
	"encoding/json"
	"fmt"
	"os"
	"time"

	abci "github.com/cometbft/cometbft/abci/types"
	tmproto "github.com/cometbft/cometbft/proto/tendermint/types"
	dbm "github.com/cometbft/cometbft-db"
	"github.com/cosmos/cosmos-sdk/codec"
	sdk "github.com/cosmos/cosmos-sdk/types"
	"github.com/cosmos/cosmos-sdk/types/module"

	"github.com/medibloc/panacea-core/v2/app"
)

var customModules = []string{"aol", "did", "pnft", "burn"}

func moduleJSON(appState []byte, mod string) (json.RawMessage, error) {
	var gs map[string]json.RawMessage
	if err := json.Unmarshal(appState, &gs); err != nil {
		return nil, err
	}
	return gs[mod], nil
}

// ExportImport exports the committed state twice, validates the custom modules' genesis, initialises a
// fresh application from the export (same accounts, next height), re-exports there, and compares every
// custom query answer before and after. The caller must have committed. On success the new chain is
// inside block lastHeight+1.
func (c *Chain) ExportImport(vo ViewOpts) (rep M, nc *Chain, err error) {
	rep = M{"exportOk": false, "exportTwiceEqual": false, "validateOk": false, "reExportEqual": false, "viewsEqual": false}
	defer func() {
		if r := recover(); r != nil {
			err = fmt.Errorf("PANIC in export/import: %v", r)
			rep["panic"] = true
		}
	}()
	before := c.customDigest(vo)
	exp1, e := c.App.ExportAppStateAndValidators(false, nil, nil)
	if e != nil {
		return rep, nil, e
	}
	exp2, e := c.App.ExportAppStateAndValidators(false, nil, nil)
	if e != nil {
		return rep, nil, e
	}
	rep["exportOk"] = true
	if g, e := c.ProjectGenesis(exp1.AppState); e == nil {
		rep["genesis"] = g // the exported content itself, in the vocabulary of spec/Genesis.tla
	} else {
		rep["genesis"] = M{"aol": M{"owners": []any{}, "topics": []any{}, "writers": []any{}, "records": []any{}}, "did": []any{}, "denoms": []any{}, "pnfts": []any{},
			"nDenoms": 0, "nPnfts": 0, "fillers": 0, "junk": []any{"unparsable: " + e.Error()}}
	}
	rep["exportTwiceEqual"] = bytes.Equal(exp1.AppState, exp2.AppState)
	// custom modules' own genesis validation
	valid := true
	var gs map[string]json.RawMessage
	if e := json.Unmarshal(exp1.AppState, &gs); e != nil {
		return rep, nil, e
	}
	verr := ""
	for _, mod := range customModules {
		hg, ok := app.ModuleBasics[mod].(module.HasGenesisBasics)
		if !ok {
			continue
		}
		if e := hg.ValidateGenesis(c.cdc(), c.App.TxConfig(), gs[mod]); e != nil {
			valid = false
			verr += mod + ": " + e.Error() + "; "
		}
	}
	rep["validateOk"] = valid
	rep["validateErr"] = verr

	n := &Chain{DB: dbm.NewMemDB(), Opts: c.Opts, Accts: c.Accts, AcctList: c.AcctList, byBech: c.byBech, ValAddr: c.ValAddr, Unit2: c.Unit2, Logger: c.Logger}
	n.Home = c.Home + "-imp"
	n.App = newApp(n.DB, n.Home, n.Logger)
	n.App.InitChain(abci.RequestInitChain{
		ChainId:         chainID,
		Time:            blockTime(exp1.Height - 1),
		ConsensusParams: exp1.ConsensusParams,
		Validators:      []abci.ValidatorUpdate{},
		AppStateBytes:   exp1.AppState,
		InitialHeight:   exp1.Height,
	})
	n.Height = exp1.Height - 1
	// compare the custom modules' state right after import (before any block runs)
	n.InBlock = false
	after := func() string {
		// the deliver state of a freshly initialised chain holds the genesis state
		return n.customDigestAt(n.App.BaseApp.NewContext(false, tmproto.Header{ChainID: chainID, Height: n.Height, Time: blockTime(n.Height)}), vo)
	}()
	rep["viewsEqual"] = before == after
	if before != after && os.Getenv("VERIF_DEBUG") != "" {
		fmt.Fprintf(os.Stderr, "BEFORE %s\nAFTER  %s\n", before, after)
	}
	if err := n.BeginBlock(); err != nil {
		return rep, nil, err
	}
	// export of the new chain needs a committed state: compare module JSON through a scratch branch instead —
	// ExportGenesis of the custom modules on the imported state
	re := map[string]json.RawMessage{}
	ictx := n.Ctx()
	for _, mod := range customModules {
		m := n.App.ModuleManager.Modules[mod]
		if hg, ok := m.(interface {
			ExportGenesis(ctx sdk.Context, cdc codec.JSONCodec) json.RawMessage
		}); ok {
			re[mod] = hg.ExportGenesis(ictx, n.cdc())
		}
	}
	same := true
	diff := ""
	for _, mod := range customModules {
		a, b := canonJSON(gs[mod]), canonJSON(re[mod])
		if a != b {
			same = false
			diff += mod + " "
		}
	}
	rep["reExportEqual"] = same
	rep["reExportDiff"] = diff
	_ = time.Now
	return rep, n, nil
}

func canonJSON(raw json.RawMessage) string {
	var v any
	if err := json.Unmarshal(raw, &v); err != nil {
		return "ERR:" + string(raw)
	}
	b, _ := json.Marshal(v) // maps are marshalled with sorted keys
	return string(b)
}
