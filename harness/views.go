package main

// views.go — the real answers of the custom modules' query handlers, taken on the same state the
// projection reads. The handlers are the registered gRPC query servers (the keepers themselves);
// the ABCI path (app.Query) is exercised separately where committed heights matter.

import (
	"encoding/base64"
	"fmt"
	"sort"
	"strings"

	sdk "github.com/cosmos/cosmos-sdk/types"
	"github.com/cosmos/cosmos-sdk/types/query"
	"google.golang.org/grpc/codes"
	"google.golang.org/grpc/status"

	aoltypes "github.com/medibloc/panacea-core/v2/x/aol/types"
	didtypes "github.com/medibloc/panacea-core/v2/x/did/types"
	pnfttypes "github.com/medibloc/panacea-core/v2/x/pnft/types"
)

type pageShape struct {
	Limit      uint64
	Reverse    bool
	OffsetMode bool
	CountTotal bool
}

func allShapes(full bool) []pageShape {
	var out []pageShape
	limits := []uint64{1, 2, 3, 100}
	if !full {
		return []pageShape{{Limit: 100}, {Limit: 1, Reverse: true}, {Limit: 1, OffsetMode: true, CountTotal: true}}
	}
	for _, l := range limits {
		for _, r := range []bool{false, true} {
			for _, o := range []bool{false, true} {
				for _, ct := range []bool{false, true} {
					out = append(out, pageShape{l, r, o, ct})
				}
			}
		}
	}
	return out
}

func errClass(err error) string {
	if err == nil {
		return "ok"
	}
	if s, ok := status.FromError(err); ok {
		switch s.Code() {
		case codes.NotFound:
			return "notfound"
		case codes.InvalidArgument:
			return "invalid"
		case codes.Internal:
			return "internal"
		}
	}
	return "error"
}

// scan pages through a listing with one request shape; fetch returns (items, nextKey, total, err).
func scan(shape pageShape, fetch func(*query.PageRequest) ([]string, []byte, uint64, error)) (items []string, total int, status string) {
	var key []byte
	var offset uint64
	total = -1
	for guard := 0; guard < 1000; guard++ {
		req := &query.PageRequest{Limit: shape.Limit, Reverse: shape.Reverse, CountTotal: shape.CountTotal}
		if shape.OffsetMode {
			req.Offset = offset
		} else {
			req.Key = key
		}
		got, next, tot, err := fetch(req)
		if err != nil {
			return items, total, errClass(err) + ":" + err.Error()
		}
		if guard == 0 && shape.CountTotal && (shape.OffsetMode || key == nil) {
			total = int(tot)
		}
		items = append(items, got...)
		if len(next) == 0 {
			return items, total, "ok"
		}
		if shape.OffsetMode {
			offset += uint64(len(got))
			if len(got) == 0 {
				return items, total, "ok"
			}
		} else {
			key = next
		}
	}
	return items, total, "loop"
}

type ViewOpts struct {
	FullPaging bool
	Topics     []string // abstract topic names in use
	Denoms     []string
	Tokens     []string
	Dids       []string
	Acked      []M // acknowledged records {o,t,n}
}

func (c *Chain) keyAcctNames() []string {
	var out []string
	for _, a := range c.AcctList {
		out = append(out, a.Name)
	}
	return out
}

func (c *Chain) ViewsAol(ctx sdk.Context, vo ViewOpts) M {
	g := sdk.WrapSDKContext(ctx)
	k := c.App.AolKeeper
	vTopic, vWriter, vRecord, vTopics, vWriters := []any{}, []any{}, []any{}, []any{}, []any{}
	accts := c.keyAcctNames()
	for _, o := range accts {
		for _, t := range vo.Topics {
			res, err := k.Topic(g, &aoltypes.QueryTopicRequest{OwnerAddress: c.bech(o), TopicName: conc(topicDict, t)})
			e := M{"o": o, "t": t, "st": errClass(err), "desc": "", "nw": 0, "nr": 0}
			if err == nil && res.Topic != nil {
				e["desc"], e["nw"], e["nr"] = res.Topic.Description, int(int64(res.Topic.TotalWriters)), int(int64(res.Topic.TotalRecords))
			}
			vTopic = append(vTopic, e)
			for _, w := range accts {
				wr, err := k.Writer(g, &aoltypes.QueryWriterRequest{OwnerAddress: c.bech(o), TopicName: conc(topicDict, t), WriterAddress: c.bech(w)})
				if err != nil && errClass(err) == "notfound" {
					continue // absent writers are implied: only present ones and errors are listed
				}
				e := M{"o": o, "t": t, "w": w, "st": errClass(err), "mon": "", "desc": "", "ts": -1}
				if err == nil && wr.Writer != nil {
					e["mon"], e["desc"], e["ts"] = wr.Writer.Moniker, wr.Writer.Description, absTime(wr.Writer.NanoTimestamp)
				}
				vWriter = append(vWriter, e)
			}
			// writers listing
			lists, totals, errs := distinctScans(vo.FullPaging, func(req *query.PageRequest) ([]string, []byte, uint64, error) {
				r, err := k.Writers(g, &aoltypes.QueryWritersRequest{OwnerAddress: c.bech(o), TopicName: conc(topicDict, t), Pagination: req})
				if err != nil {
					return nil, nil, 0, err
				}
				var names []string
				for _, w := range r.WriterAddresses {
					names = append(names, c.acctName(w))
				}
				return names, r.Pagination.NextKey, r.Pagination.Total, nil
			})
			vWriters = append(vWriters, M{"o": o, "t": t, "lists": lists, "totals": totals, "errs": errs})
			// writers outside the dictionary (bulk entries are named "?<bech32>"): their single-item view as well
			seenExtra := map[string]bool{}
			for _, l := range lists {
				for _, nm := range l.([]any) {
					name := nm.(string)
					if !strings.HasPrefix(name, "?") || seenExtra[name] {
						continue
					}
					seenExtra[name] = true
					wr, err := k.Writer(g, &aoltypes.QueryWriterRequest{OwnerAddress: c.bech(o), TopicName: conc(topicDict, t), WriterAddress: name[1:]})
					e := M{"o": o, "t": t, "w": name, "st": errClass(err), "mon": "", "desc": "", "ts": -1}
					if err == nil && wr.Writer != nil {
						e["mon"], e["desc"], e["ts"] = wr.Writer.Moniker, wr.Writer.Description, absTime(wr.Writer.NanoTimestamp)
					}
					vWriter = append(vWriter, e)
				}
			}
		}
		lists, totals, errs := distinctScans(vo.FullPaging, func(req *query.PageRequest) ([]string, []byte, uint64, error) {
			r, err := k.Topics(g, &aoltypes.QueryTopicsRequest{OwnerAddress: c.bech(o), Pagination: req})
			if err != nil {
				return nil, nil, 0, err
			}
			var names []string
			for _, t := range r.TopicNames {
				names = append(names, abs(topicRev, t))
			}
			return names, r.Pagination.NextKey, r.Pagination.Total, nil
		})
		vTopics = append(vTopics, M{"o": o, "lists": lists, "totals": totals, "errs": errs})
	}
	for _, a := range vo.Acked {
		res, err := k.Record(g, &aoltypes.QueryRecordRequest{OwnerAddress: c.bech(str(a, "o")), TopicName: conc(topicDict, str(a, "t")), Offset: uint64(num(a, "n"))})
		e := M{"o": str(a, "o"), "t": str(a, "t"), "n": int(num(a, "n")), "st": errClass(err), "key": "", "val": "", "w": "", "ts": -1}
		if err == nil && res.Record != nil {
			e["key"], e["val"], e["w"], e["ts"] = string(res.Record.Key), string(res.Record.Value), c.acctName(res.Record.WriterAddress), absTime(res.Record.NanoTimestamp)
		}
		vRecord = append(vRecord, e)
	}
	return M{"topic": vTopic, "writer": vWriter, "record": vRecord, "topics": vTopics, "writers": vWriters}
}

// distinctScans runs every request shape and returns the distinct item lists (forward scans as they are,
// reverse scans reversed — so that every correct scan yields the same list), the distinct reported totals
// and the distinct error strings.
func distinctScans(full bool, fetch func(*query.PageRequest) ([]string, []byte, uint64, error)) ([]any, []any, []any) {
	seen := map[string]bool{}
	lists, totals, errs := []any{}, []any{}, []any{}
	seenT := map[int]bool{}
	for _, sh := range allShapes(full) {
		items, total, st := scan(sh, fetch)
		if st != "ok" {
			if !seen["E"+st] {
				seen["E"+st] = true
				errs = append(errs, st)
			}
			continue
		}
		if sh.Reverse {
			for i, j := 0, len(items)-1; i < j; i, j = i+1, j-1 {
				items[i], items[j] = items[j], items[i]
			}
		}
		key := strings.Join(items, "\x1f")
		if !seen["L"+key] {
			seen["L"+key] = true
			l := []any{}
			for _, x := range items {
				l = append(l, x)
			}
			lists = append(lists, l)
		}
		if total >= 0 && !seenT[total] {
			seenT[total] = true
			totals = append(totals, total)
		}
	}
	return lists, totals, errs
}

func (c *Chain) ViewsDid(ctx sdk.Context, vo ViewOpts) []any {
	g := sdk.WrapSDKContext(ctx)
	out := []any{}
	for _, d := range vo.Dids {
		res, err := c.App.DidKeeper.DID(g, &didtypes.QueryDIDRequest{DidBase64: base64.StdEncoding.EncodeToString([]byte(conc(didDict, d)))})
		e := M{"d": d, "st": errClass(err), "msg": "", "doc": M{"id": "", "vms": []any{}, "auth": []any{}, "asrt": []any{}, "ex": ""}, "seq": 0, "named": true}
		if err != nil {
			if s, ok := status.FromError(err); ok {
				e["msg"] = s.Message()
			}
		} else if res.DidDocumentWithSeq != nil {
			doc, ok := absDoc(res.DidDocumentWithSeq.Document)
			e["doc"], e["named"], e["seq"] = doc, ok, int(res.DidDocumentWithSeq.Sequence)
		}
		out = append(out, e)
	}
	return out
}

func (c *Chain) absPnft(p *pnfttypes.Pnft) M {
	return M{"denom": abs(denomRev, p.DenomId), "id": abs(tokenRev, p.Id), "name": p.Name, "desc": p.Description, "uri": p.Uri, "hash": p.UriHash, "data": p.Data,
		"creator": c.acctName(p.Creator), "owner": c.acctName(p.Owner), "at": absTime(p.CreatedAt.UnixNano())}
}

func (c *Chain) absDenom(d *pnfttypes.Denom) M {
	return M{"id": abs(denomRev, d.Id), "owner": c.acctName(d.Owner), "name": d.Name, "symbol": d.Symbol, "desc": d.Description, "uri": d.Uri, "hash": d.UriHash, "data": d.Data}
}

func (c *Chain) ViewsPnft(ctx sdk.Context, vo ViewOpts) M {
	g := sdk.WrapSDKContext(ctx)
	k := c.App.PnftKeeper
	vDenom, vToken, vTokens, vByOwner, vDenomsByOwner := []any{}, []any{}, []any{}, []any{}, []any{}
	accts := c.keyAcctNames()
	for _, d := range vo.Denoms {
		res, err := k.Denom(g, &pnfttypes.QueryDenomRequest{Id: conc(denomDict, d)})
		if err == nil && res.Denom != nil {
			e := c.absDenom(res.Denom)
			e["q"] = d
			vDenom = append(vDenom, e)
		}
		for _, t := range vo.Tokens {
			r, err := k.PNFT(g, &pnfttypes.QueryPNFTRequest{DenomId: conc(denomDict, d), Id: conc(tokenDict, t)})
			if err == nil && r.Pnft != nil {
				e := c.absPnft(r.Pnft)
				e["qd"], e["qi"] = d, t
				vToken = append(vToken, e)
			}
		}
		lr, err := k.PNFTs(g, &pnfttypes.QueryPNFTsRequest{DenomId: conc(denomDict, d)})
		l := []any{}
		if err == nil {
			for _, p := range lr.Pnfts {
				l = append(l, c.absPnft(p))
			}
		}
		vTokens = append(vTokens, M{"q": d, "st": errClass(err), "items": l})
		// the single-item view of every LISTED token as well (bulk tokens are not among the names the behaviour mentions)
		named := map[string]bool{}
		for _, t := range vo.Tokens {
			named[t] = true
		}
		for _, it := range l {
			t, _ := it.(M)["id"].(string)
			if t == "" || named[t] || strings.HasPrefix(t, "?") {
				continue
			}
			named[t] = true
			r, err := k.PNFT(g, &pnfttypes.QueryPNFTRequest{DenomId: conc(denomDict, d), Id: conc(tokenDict, t)})
			if err == nil && r.Pnft != nil {
				e := c.absPnft(r.Pnft)
				e["qd"], e["qi"] = d, t
				vToken = append(vToken, e)
			}
		}
		for _, o := range accts {
			br, err := k.PNFTsByDenomOwner(g, &pnfttypes.QueryPNFTsByDenomOwnerRequest{DenomId: conc(denomDict, d), Owner: c.bech(o)})
			l := []any{}
			if err == nil {
				for _, p := range br.Pnfts {
					l = append(l, c.absPnft(p))
				}
			}
			if len(l) > 0 || err != nil {
				vByOwner = append(vByOwner, M{"q": d, "o": o, "st": errClass(err), "items": l})
			}
		}
	}
	for _, o := range accts {
		r, err := k.DenomsByOwner(g, &pnfttypes.QueryDenomsByOwnerRequest{Owner: c.bech(o)})
		l := []any{}
		if err == nil {
			for _, d := range r.Denoms {
				l = append(l, abs(denomRev, d.Id))
			}
		}
		vDenomsByOwner = append(vDenomsByOwner, M{"o": o, "st": errClass(err), "ids": l})
	}
	// all denoms, paged
	lists, _, errs := distinctScans(vo.FullPaging, func(req *query.PageRequest) ([]string, []byte, uint64, error) {
		r, err := k.Denoms(g, &pnfttypes.QueryDenomsRequest{Pagination: req})
		if err != nil {
			return nil, nil, 0, err
		}
		var ids []string
		for _, d := range r.Denoms {
			ids = append(ids, abs(denomRev, d.Id))
		}
		return ids, r.Pagination.NextKey, r.Pagination.Total, nil
	})
	return M{"denom": vDenom, "token": vToken, "tokens": vTokens, "byOwner": vByOwner, "denomsByOwner": vDenomsByOwner, "denoms": M{"lists": lists, "errs": errs}}
}

func (c *Chain) Views(vo ViewOpts) M {
	if c.Opts.OldReads {
		// read noise: the same queries served at the PREVIOUS committed height (the node's gRPC path, a read-only state of an older version);
		// answers are discarded - a read never changes what later reads at the latest state return
		if h := c.App.LastBlockHeight(); h >= 2 {
			func() {
				defer func() { recover() }()
				if qctx, err := c.App.CreateQueryContext(h-1, false); err == nil {
					c.ViewsDid(qctx, vo)
					c.ViewsAol(qctx, ViewOpts{Topics: vo.Topics})
					c.ViewsPnft(qctx, ViewOpts{Denoms: vo.Denoms, Tokens: vo.Tokens})
				}
			}()
		}
	}
	ctx := c.Ctx()
	return M{"aol": c.ViewsAol(ctx, vo), "did": c.ViewsDid(ctx, vo), "pnft": c.ViewsPnft(ctx, vo)}
}

// customDigest is a canonical string of every custom query answer (used to compare two chains).
func (c *Chain) customDigest(vo ViewOpts) string {
	return c.customDigestAt(c.Ctx(), vo)
}

func (c *Chain) customDigestAt(ctx sdk.Context, vo ViewOpts) string {
	return canonical(M{"aol": c.ViewsAol(ctx, vo), "did": c.ViewsDid(ctx, vo), "pnft": c.ViewsPnft(ctx, vo)})
}

// splitDigest returns the canonical text of the single-item (Get-based) answers and of the listing (iterator-based) answers.
func (c *Chain) splitDigest(ctx sdk.Context, vo ViewOpts) (gets string, iters string) {
	a := c.ViewsAol(ctx, vo)
	p := c.ViewsPnft(ctx, vo)
	gets = canonical(M{"topic": a["topic"], "writer": a["writer"], "record": a["record"], "did": c.ViewsDid(ctx, vo), "denom": p["denom"], "token": p["token"]})
	iters = canonical(M{"topics": a["topics"], "writers": a["writers"], "tokens": p["tokens"], "byOwner": p["byOwner"], "denomsByOwner": p["denomsByOwner"], "denoms": p["denoms"]})
	return
}

func canonical(v any) string {
	switch x := v.(type) {
	case M:
		ks := make([]string, 0, len(x))
		for k := range x {
			ks = append(ks, k)
		}
		sort.Strings(ks)
		var sb strings.Builder
		sb.WriteString("{")
		for _, k := range ks {
			sb.WriteString(k + ":" + canonical(x[k]) + ",")
		}
		sb.WriteString("}")
		return sb.String()
	case []any:
		var sb strings.Builder
		sb.WriteString("[")
		for _, e := range x {
			sb.WriteString(canonical(e) + ",")
		}
		sb.WriteString("]")
		return sb.String()
	default:
		return fmt.Sprintf("%v", x)
	}
}
