package main

// compkey.go — C18: feeds tuples / byte strings chosen by the specification (and real-size boundary cases) to the
// real types/compkey codec and to the four typed keys of x/aol, and records what comes back.

import (
	"strconv"
	"bufio"
	"encoding/json"
	"fmt"
	"io"
	"os"
	"strings"

	sdk "github.com/cosmos/cosmos-sdk/types"

	"github.com/medibloc/panacea-core/v2/types/compkey"
	aoltypes "github.com/medibloc/panacea-core/v2/x/aol/types"
)

type rawKey struct{ comps [][]byte }

func (k rawKey) ByteSlices() [][]byte { return k.comps }
func (k *rawKey) FromByteSlices(b [][]byte) error {
	k.comps = b
	return nil
}
func (k rawKey) Strings() []string {
	var out []string
	for _, c := range k.comps {
		out = append(out, string(c))
	}
	return out
}
func (k *rawKey) FromStrings(s []string) error {
	k.comps = nil
	for _, x := range s {
		k.comps = append(k.comps, []byte(x))
	}
	return nil
}

func toBytes(a []any) []byte {
	out := make([]byte, len(a))
	for i, x := range a {
		out[i] = byte(int(x.(float64)))
	}
	return out
}

func fromBytes(b []byte) []any {
	out := make([]any, len(b))
	for i, x := range b {
		out[i] = int(x)
	}
	return out
}

func compsOf(a []any) [][]byte {
	out := [][]byte{}
	for _, c := range a {
		out = append(out, toBytes(c.([]any)))
	}
	return out
}

func compsJSON(cs [][]byte) []any {
	out := []any{}
	for _, c := range cs {
		out = append(out, fromBytes(c))
	}
	return out
}

func ckCase(c M) (rec M) {
	rec = M{"k": str(c, "k"), "panic": false}
	defer func() {
		if r := recover(); r != nil {
			rec["panic"] = true
			rec["err"] = fmt.Sprint(r)
		}
	}()
	switch str(c, "k") {
	case "enc":
		t := compsOf(list(c, "t"))
		rec["t"] = compsJSON(t)
		key := &rawKey{comps: t}
		bz, err := compkey.Encode(key)
		rec["ok"], rec["bz"] = err == nil, fromBytes(bz)
		parts := []any{}
		for n := 0; n <= len(t)+1; n++ {
			pb, perr := compkey.PartialEncode(key, n)
			parts = append(parts, M{"n": n, "ok": perr == nil, "bz": fromBytes(pb)})
		}
		rec["partial"] = parts
		dec := M{"ok": false, "t": []any{}}
		if err == nil {
			var back rawKey
			derr := compkey.Decode(bz, &back)
			dec = M{"ok": derr == nil, "t": compsJSON(back.comps)}
		}
		rec["dec"] = dec
	case "dec":
		s := toBytes(list(c, "s"))
		rec["s"] = fromBytes(s)
		var back rawKey
		err := compkey.Decode(s, &back)
		rec["ok"] = err == nil
		rec["t"] = compsJSON(back.comps)
		if err != nil {
			rec["t"] = []any{}
		}
	case "typed":
		s := toBytes(list(c, "s"))
		rec["s"], rec["type"] = fromBytes(s), str(c, "type")
		var key compkey.CompositeKey
		switch str(c, "type") {
		case "owner":
			key = &aoltypes.OwnerCompositeKey{}
		case "topic":
			key = &aoltypes.TopicCompositeKey{}
		case "writer":
			key = &aoltypes.WriterCompositeKey{}
		default:
			key = &aoltypes.RecordCompositeKey{}
		}
		rec["result"], rec["reenc"] = "err", []any{}
		if err := compkey.Decode(s, key); err == nil {
			rec["result"] = "ok"
			if bz, e2 := compkey.Encode(key); e2 == nil {
				rec["reenc"] = fromBytes(bz)
			}
		}
	case "str":
		name := string(toBytes(list(c, "name")))
		rec["name"] = fromBytes([]byte(name))
		owner := sdk.AccAddress([]byte("verif-owner-addr-20b"))
		msg := aoltypes.MsgCreateTopicRequest{TopicName: name, Description: "", OwnerAddress: owner.String()}
		admitted := msg.ValidateBasic() == nil
		rec["admitted"] = admitted
		off := uint64(18446744073709551615) // the record offset of the third key: any uint64 (decimal string in the case, default: the largest)
		if o := str(c, "off"); o != "" {
			v, perr := strconv.ParseUint(o, 10, 64)
			if perr != nil {
				rec["rt"] = "err"
				return rec
			}
			off = v
		}
		rec["off"] = strconv.FormatUint(off, 10)
		rt := "ok"
		// the genesis string form of the three keys that carry a topic name
		keys := []compkey.CompositeKey{
			&aoltypes.TopicCompositeKey{OwnerAddress: owner, TopicName: name},
			&aoltypes.WriterCompositeKey{OwnerAddress: owner, TopicName: name, WriterAddress: owner},
			&aoltypes.RecordCompositeKey{OwnerAddress: owner, TopicName: name, Offset: off},
		}
		outs := []compkey.CompositeKey{&aoltypes.TopicCompositeKey{}, &aoltypes.WriterCompositeKey{}, &aoltypes.RecordCompositeKey{}}
		for i, k := range keys {
			sform := compkey.EncodeToString(k, aoltypes.GenesisKeySeparator)
			if err := compkey.DecodeFromString(sform, aoltypes.GenesisKeySeparator, outs[i]); err != nil {
				rt = "err"
				break
			}
			a, _ := compkey.Encode(k)
			b, _ := compkey.Encode(outs[i])
			if string(a) != string(b) {
				rt = "diff"
				break
			}
		}
		rec["rt"] = rt
	}
	return rec
}

func cmdCompKey(args []string) error {
	if len(args) < 2 {
		return fmt.Errorf("usage: compkey <cases.ndjson> <obs-out.ndjson>")
	}
	in, err := os.Open(args[0])
	if err != nil {
		return err
	}
	defer in.Close()
	outF, err := os.Create(args[1])
	if err != nil {
		return err
	}
	defer outF.Close()
	out := bufio.NewWriterSize(outF, 1<<20)
	defer out.Flush()
	rd := bufio.NewReaderSize(in, 1<<20)
	for {
		line, err := rd.ReadBytes('\n')
		if len(strings.TrimSpace(string(line))) > 0 {
			var c M
			if e := json.Unmarshal(line, &c); e != nil {
				return e
			}
			bz, _ := json.Marshal(ckCase(c))
			out.Write(bz)
			out.WriteByte('\n')
		}
		if err == io.EOF {
			break
		}
		if err != nil {
			return err
		}
	}
	return nil
}
