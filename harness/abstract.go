package main

// abstract.go — the dictionary between the specification's abstract values and real bytes, and the
// concretisation of abstract messages into real sdk.Msg values (real signatures for DID proofs).

import (
	"strconv"
	"regexp"
	"fmt"
	"sort"
	"strings"

	"github.com/btcsuite/btcutil/base58"
	tmsecp "github.com/cometbft/cometbft/crypto/secp256k1"
	sdk "github.com/cosmos/cosmos-sdk/types"
	"github.com/cosmos/cosmos-sdk/x/authz"
	banktypes "github.com/cosmos/cosmos-sdk/x/bank/types"
	vestingtypes "github.com/cosmos/cosmos-sdk/x/auth/vesting/types"

	aoltypes "github.com/medibloc/panacea-core/v2/x/aol/types"
	didtypes "github.com/medibloc/panacea-core/v2/x/did/types"
	pnfttypes "github.com/medibloc/panacea-core/v2/x/pnft/types"
)

type M = map[string]any

func str(m M, k string) string {
	v, ok := m[k]
	if !ok || v == nil {
		return ""
	}
	s, ok := v.(string)
	if !ok {
		return fmt.Sprint(v)
	}
	return s
}

func num(m M, k string) int64 {
	switch v := m[k].(type) {
	case float64:
		return int64(v)
	case int:
		return int64(v)
	case int64:
		return v
	}
	return 0
}

func boolean(m M, k string) bool {
	b, _ := m[k].(bool)
	return b
}

func list(m M, k string) []any {
	l, _ := m[k].([]any)
	return l
}

func strs(m M, k string) []string {
	var out []string
	for _, x := range list(m, k) {
		out = append(out, fmt.Sprint(x))
	}
	return out
}

// ---------------------------------------------------------------------------------------------
// dictionary

// Topic names: one is a byte-prefix of another; t3 uses every allowed punctuation character.
// "tc" is the case twin of "t1" (topic names are case-sensitive: two different topics)
var topicDict = map[string]string{"t1": "a", "t2": "ab", "t3": "a.b-_9", "t4": "abc", "ts": "a/b", "tc": "A"}

// PNFT identifiers: prefix-related and separator-bearing ("/" is the genesis key separator of aol,
// NUL is the x/nft store key delimiter).
var denomDict = map[string]string{"n1": "a", "n2": "ab", "n3": "a/b", "nz": "a\x00b", "nc": "A"}
var tokenDict = map[string]string{"i1": "b", "i2": "bc", "i3": "a/b", "iz": "b\x00c", "iy": "c", "ic": "B"}

var keyTypeDict = map[string]string{
	"es19": didtypes.ES256K_2019,
	"es18": didtypes.ES256K_2018,
	"ed25": didtypes.ED25519_2018,
	"x20":  "Ed25519VerificationKey2020", // not one of the module's constants; ValidateKeyType admits any non-empty string
}

func rev(m map[string]string) map[string]string {
	r := map[string]string{}
	for k, v := range m {
		r[v] = k
	}
	return r
}

// bulk names (GenesisOpts.Bulk): filler topics/denoms "f000".. and filler tokens "g000".., the same string on both sides of the dictionary
const maxBulk = 200

func withBulk(m map[string]string, prefix string) map[string]string {
	for i := 0; i < maxBulk; i++ {
		n := fmt.Sprintf("%s%03d", prefix, i)
		m[n] = n
	}
	return m
}

var (
	_          = withBulk(topicDict, "f")
	_          = withBulk(denomDict, "f")
	_          = withBulk(tokenDict, "g")
	topicRev   = rev(topicDict)
	denomRev   = rev(denomDict)
	tokenRev   = rev(tokenDict)
	keyTypeRev = rev(keyTypeDict)
)

func conc(d map[string]string, a string) string {
	if v, ok := d[a]; ok {
		return v
	}
	return a // verbatim (descriptions, monikers, names, record keys/values)
}

var longRe = regexp.MustCompile(`^L(\d+)$`)

// longv: free-text values named "L<n>" stand for n bytes of text (a long description or record value); everything else is verbatim
func longv(s string) string {
	if m := longRe.FindStringSubmatch(s); m != nil {
		n, _ := strconv.Atoi(m[1])
		return strings.Repeat("d", n)
	}
	return s
}

func abs(d map[string]string, c string) string {
	if v, ok := d[c]; ok {
		return v
	}
	return "?" + c
}

// DID keys k1..k9 (secp256k1) and DIDs d1..d9 (did:panacea:<base58(sha256(pub(k_i)))>).
type didKey struct {
	Name string
	Priv tmsecp.PrivKey
	B58  string
}

var didKeys = map[string]*didKey{}
var didKeyByB58 = map[string]string{}
var didDict = map[string]string{}
var didRev = map[string]string{}

func init() {
	for i := 1; i <= 9; i++ {
		name := fmt.Sprintf("k%d", i)
		priv := tmsecp.GenPrivKeySecp256k1([]byte("verif-didkey-" + name))
		pub := priv.PubKey().(tmsecp.PubKey)
		k := &didKey{Name: name, Priv: priv, B58: base58.Encode(pub[:])}
		didKeys[name] = k
		didKeyByB58[k.B58] = name
		d := fmt.Sprintf("d%d", i)
		didDict[d] = didtypes.NewDID(pub[:])
		didRev[didDict[d]] = d
	}
	// "d2": an identifier whose first characters are all letters of the method prefix itself ("did:panacea:" + "cedipan..."): whatever strips or
	// matches the prefix by character set instead of literally eats into the identifier.  (A DID need not be derived from its key.)
	{
		old := didDict["d2"]
		delete(didRev, old)
		d2 := old[:len("did:panacea:")] + "cedipan" + old[len("did:panacea:")+7:]
		didDict["d2"] = d2
		didRev[d2] = "d2"
	}
	// "dp": d1 without its last character - a valid identifier (32-44 characters) that is a proper PREFIX of a registered one
	{
		dp := didDict["d1"][:len(didDict["d1"])-1]
		didDict["dp"] = dp
		didRev[dp] = "dp"
	}
	// "dc": a hostile twin of d1 — the same identifier with the case of one letter flipped (still valid base58)
	d1 := []byte(didDict["d1"])
	for i := len("did:panacea:"); i < len(d1); i++ {
		ch := d1[i]
		var o byte
		switch {
		case ch >= 'a' && ch <= 'z':
			o = ch - 32
		case ch >= 'A' && ch <= 'Z':
			o = ch + 32
		default:
			continue
		}
		if strings.IndexByte(didtypes.Base58Charset, o) >= 0 {
			d1[i] = o
			break
		}
	}
	didDict["dc"] = string(d1)
	didRev[string(d1)] = "dc"
}

// mbech: the address of an account as it is SPELLED in a custom-module message field: bech32 also admits an all upper-case spelling of the
// same address, and the accounts listed in GenesisOpts.Upper use it (queries and signatures keep the canonical spelling)
func (c *Chain) mbech(name string) string {
	b := c.bech(name)
	for _, u := range c.Opts.Upper {
		if u == name {
			return strings.ToUpper(b)
		}
	}
	return b
}

func (c *Chain) bech(name string) string {
	if a, ok := c.Accts[name]; ok {
		return a.Bech
	}
	return name // verbatim: lets shape cases pass malformed addresses through
}

// fillerDID: the i-th bulk registry entry (GenesisOpts.Bulk). Valid identifiers that sort BEFORE every DID of the dictionary, so that the
// dictionary's DIDs lie beyond whatever count-based boundary an iteration may have.
func fillerDID(i int) string {
	digits := "123456789"
	s := ""
	for k := 0; k < 4; k++ {
		s = string(digits[i%9]) + s
		i /= 9
	}
	return "did:panacea:1111111111111111111111111111" + s
}

func fillerDoc(i int) *didtypes.DIDDocumentWithSeq {
	did := fillerDID(i)
	vm := &didtypes.VerificationMethod{Id: vmID(did, "v1"), Type: didtypes.ES256K_2019, Controller: did, PublicKeyBase58: didKeys["k9"].B58}
	return &didtypes.DIDDocumentWithSeq{Document: &didtypes.DIDDocument{Contexts: &didtypes.JSONStringOrStrings{didtypes.ContextDIDV1}, Id: did,
		VerificationMethods: []*didtypes.VerificationMethod{vm}, Authentications: []didtypes.VerificationRelationship{didtypes.NewVerificationRelationship(vm.Id)}}, Sequence: 0}
}

// isIntactFiller: d is exactly the i-th filler entry for some i < n
func isIntactFiller(key string, d *didtypes.DIDDocumentWithSeq, n int) bool {
	if !strings.HasPrefix(key, "did:panacea:1111111111111111111111111111") || d == nil {
		return false
	}
	for i := 0; i < n; i++ {
		if fillerDID(i) == key {
			a, _ := fillerDoc(i).Marshal()
			b, _ := d.Marshal()
			return string(a) == string(b)
		}
	}
	return false
}

func (c *Chain) acctName(bech string) string {
	if n, ok := c.byBech[bech]; ok {
		return n
	}
	// another spelling of a known address (bech32 is case-insensitive as a whole) names the same account
	if a, err := sdk.AccAddressFromBech32(bech); err == nil {
		if n, ok := c.byBech[a.String()]; ok {
			return n
		}
	}
	return "?" + bech
}

func (c *Chain) acctNameOfAddr(addr sdk.AccAddress) string { return c.acctName(addr.String()) }

// ---------------------------------------------------------------------------------------------
// DID documents

func vmID(did, name string) string { return did + "#" + name }

// concDoc builds the real document of an abstract one.
// abstract: {id, vms:[{n,key,type}], auth:[{n,ded,key,type}], asrt:[n...]}
func concDoc(a M) *didtypes.DIDDocument {
	id := str(a, "id")
	if id == "" {
		return &didtypes.DIDDocument{}
	}
	did := conc(didDict, id)
	if len(list(a, "vms")) == 0 && len(list(a, "auth")) == 0 && len(list(a, "asrt")) == 0 {
		if str(a, "ex") == "ctx" {
			d := didtypes.NewDIDDocument(did) // the stub WITH the default context: not what a deactivation proof is made over
			return &d
		}
		return &didtypes.DIDDocument{Id: did} // the bare document a deactivation proof is made over
	}
	doc := &didtypes.DIDDocument{Contexts: &didtypes.JSONStringOrStrings{didtypes.ContextDIDV1}, Id: did}
	own := did // the DID the method ids are filed under: the document's own, or (ex = "xvm", malformed) its twin's
	if str(a, "ex") == "xvm" {
		own = xvmOwner(did)
	}
	mk := func(e M) *didtypes.VerificationMethod {
		return &didtypes.VerificationMethod{
			Id:              vmID(own, str(e, "n")),
			Type:            conc(keyTypeDict, str(e, "type")),
			Controller:      own,
			PublicKeyBase58: didKeys[str(e, "key")].B58,
		}
	}
	vms := sortedRecs(list(a, "vms"))
	doc.VerificationMethods = []*didtypes.VerificationMethod{}
	for _, e := range vms {
		doc.VerificationMethods = append(doc.VerificationMethods, mk(e))
	}
	doc.Authentications = []didtypes.VerificationRelationship{}
	for _, e := range sortedRecs(list(a, "auth")) {
		if boolean(e, "ded") {
			doc.Authentications = append(doc.Authentications, didtypes.NewVerificationRelationshipDedicated(*mk(e)))
		} else {
			doc.Authentications = append(doc.Authentications, didtypes.NewVerificationRelationship(vmID(own, str(e, "n"))))
		}
	}
	as := strs(a, "asrt")
	sort.Strings(as)
	for _, n := range as {
		doc.AssertionMethods = append(doc.AssertionMethods, didtypes.NewVerificationRelationship(vmID(own, n)))
	}
	if str(a, "ex") == "rich" || str(a, "ex") == "rich2" {
		richExtras(doc, did)
	}
	if str(a, "ex") == "rich2" { // the same controller listed twice (a legal list)
		doc.Controller = &didtypes.JSONStringOrStrings{controllerOf(did), controllerOf(did)}
	}
	return doc
}

// controllerOf: the DID a "rich" document names as its controller (another DID of the dictionary, possibly unregistered)
// xvmOwner: the DID whose prefix the method ids of a malformed ("xvm") document carry: d1 <-> dc, every other -> d1
func xvmOwner(did string) string {
	switch didRev[did] {
	case "d1":
		return didDict["dc"]
	default:
		return didDict["d1"]
	}
}

func controllerOf(did string) string {
	switch didRev[did] {
	case "d1":
		return didDict["dc"]
	case "dc":
		return didDict["d2"]
	default:
		return didDict["d1"]
	}
}

const extraCtx = "https://x.example/ctx"

// richExtras adds everything a document may carry besides its keys: a controller, a second context, a dedicated key
// agreement method, a capability invocation, and three services two of which share an id.
func richExtras(doc *didtypes.DIDDocument, did string) {
	doc.Contexts = &didtypes.JSONStringOrStrings{didtypes.ContextDIDV1, extraCtx}
	doc.Controller = &didtypes.JSONStringOrStrings{controllerOf(did)}
	doc.KeyAgreements = []didtypes.VerificationRelationship{didtypes.NewVerificationRelationshipDedicated(
		didtypes.VerificationMethod{Id: vmID(did, "ka"), Type: didtypes.X25519_2019, Controller: did, PublicKeyBase58: didKeys["k3"].B58})}
	if len(doc.VerificationMethods) > 0 {
		doc.CapabilityInvocations = []didtypes.VerificationRelationship{didtypes.NewVerificationRelationship(doc.VerificationMethods[0].Id)}
	}
	doc.Services = []*didtypes.Service{
		{Id: did + "#hub", Type: "Hub", ServiceEndpoint: "https://hub.example/1"},
		{Id: did + "#agent", Type: "Agent", ServiceEndpoint: "https://agent.example"},
		{Id: did + "#hub", Type: "Hub", ServiceEndpoint: "https://hub.example/2"},
	}
}

// isRich: the document carries exactly the extras richExtras adds (compared on the encoded form of a freshly built copy)
func isRich(doc *didtypes.DIDDocument) bool  { return isRichN(doc, 1) }
func isRich2(doc *didtypes.DIDDocument) bool { return isRichN(doc, 2) }

func isRichN(doc *didtypes.DIDDocument, richControllers int) bool {
	probe := &didtypes.DIDDocument{Id: doc.Id, VerificationMethods: doc.VerificationMethods}
	richExtras(probe, doc.Id)
	eq := func(a, b []didtypes.VerificationRelationship) bool {
		if len(a) != len(b) {
			return false
		}
		for i := range a {
			x, _ := a[i].Marshal()
			y, _ := b[i].Marshal()
			if string(x) != string(y) {
				return false
			}
		}
		return true
	}
	if doc.Contexts == nil || len(*doc.Contexts) != 2 || (*doc.Contexts)[0] != didtypes.ContextDIDV1 || (*doc.Contexts)[1] != extraCtx {
		return false
	}
	if doc.Controller == nil || len(*doc.Controller) != richControllers || (*doc.Controller)[0] != controllerOf(doc.Id) || (*doc.Controller)[richControllers-1] != controllerOf(doc.Id) {
		return false
	}
	if !eq(doc.KeyAgreements, probe.KeyAgreements) || !eq(doc.CapabilityInvocations, probe.CapabilityInvocations) || len(doc.CapabilityDelegations) != 0 {
		return false
	}
	if len(doc.Services) != len(probe.Services) {
		return false
	}
	for i := range doc.Services {
		if *doc.Services[i] != *probe.Services[i] {
			return false
		}
	}
	return true
}

func sortedRecs(l []any) []M {
	var out []M
	for _, x := range l {
		out = append(out, x.(M))
	}
	sort.Slice(out, func(i, j int) bool {
		a, b := out[i], out[j]
		ka := fmt.Sprintf("%s|%v|%s|%s", str(a, "n"), boolean(a, "ded"), str(a, "key"), str(a, "type"))
		kb := fmt.Sprintf("%s|%v|%s|%s", str(b, "n"), boolean(b, "ded"), str(b, "key"), str(b, "type"))
		return ka < kb
	})
	return out
}

// absDoc projects a stored document onto the abstract shape; ok=false when something cannot be named.
func absDoc(doc *didtypes.DIDDocument) (M, bool) {
	empty := M{"id": "", "vms": []any{}, "auth": []any{}, "asrt": []any{}, "ex": ""}
	if doc == nil || doc.Id == "" {
		if doc != nil && (len(doc.VerificationMethods) > 0 || len(doc.Authentications) > 0) {
			return empty, false
		}
		return empty, true
	}
	ok := true
	id, known := didRev[doc.Id]
	if !known {
		return empty, false
	}
	own := doc.Id
	if len(doc.VerificationMethods) > 0 && strings.HasPrefix(doc.VerificationMethods[0].Id, xvmOwner(doc.Id)+"#") {
		own = xvmOwner(doc.Id) // a stored document whose methods carry the twin's prefix (only defective code stores one)
	}
	name := func(vmid string) string {
		p := own + "#"
		if !strings.HasPrefix(vmid, p) {
			ok = false
			return "?" + vmid
		}
		return vmid[len(p):]
	}
	am := func(vm *didtypes.VerificationMethod) M {
		k, kk := didKeyByB58[vm.PublicKeyBase58]
		t, tk := keyTypeRev[vm.Type]
		if !kk || !tk || vm.Controller != own {
			ok = false
		}
		return M{"n": name(vm.Id), "key": k, "type": t}
	}
	out := M{"id": id}
	vms := []any{}
	for _, vm := range doc.VerificationMethods {
		vms = append(vms, am(vm))
	}
	auth := []any{}
	for _, r := range doc.Authentications {
		if vm := r.GetVerificationMethod(); vm != nil {
			e := am(vm)
			e["ded"] = true
			auth = append(auth, e)
		} else {
			auth = append(auth, M{"n": name(r.GetVerificationMethodId()), "ded": false, "key": "", "type": ""})
		}
	}
	asrt := []any{}
	for _, r := range doc.AssertionMethods {
		if r.GetVerificationMethod() != nil {
			ok = false
			continue
		}
		asrt = append(asrt, name(r.GetVerificationMethodId()))
	}
	bare := len(doc.VerificationMethods) == 0 && len(doc.Authentications) == 0 && len(doc.AssertionMethods) == 0 && doc.Contexts == nil
	out["ex"] = ""
	if own != doc.Id {
		out["ex"] = "xvm"
		if doc.Contexts == nil || len(*doc.Contexts) != 1 || doc.Controller != nil || len(doc.KeyAgreements)+len(doc.CapabilityInvocations)+len(doc.CapabilityDelegations)+len(doc.Services) > 0 {
			ok = false
		}
	} else if isRich(doc) {
		out["ex"] = "rich"
	} else if isRich2(doc) {
		out["ex"] = "rich2"
	} else if (!bare && (doc.Contexts == nil || len(*doc.Contexts) != 1 || (*doc.Contexts)[0] != didtypes.ContextDIDV1)) || doc.Controller != nil ||
		len(doc.KeyAgreements)+len(doc.CapabilityInvocations)+len(doc.CapabilityDelegations)+len(doc.Services) > 0 {
		ok = false
	}
	out["vms"], out["auth"], out["asrt"] = vms, auth, asrt
	return out, ok
}

// proof: {key, data: <abstract doc>, seq}; "none" key means an empty signature.
func concProof(p M) []byte {
	key := str(p, "key")
	if key == "" || key == "none" {
		return nil
	}
	pad := strings.HasSuffix(key, "+") // "k1+": the signature of k1 followed by one more byte (65 bytes: not a signature of the payload)
	key = strings.TrimSuffix(key, "+")
	data := concDoc(p["data"].(M))
	sig, err := didtypes.Sign(data, uint64(num(p, "seq")), didKeys[key].Priv)
	if err != nil {
		panic(err)
	}
	if pad {
		sig = append(sig, 0x01)
	}
	return sig
}

// ---------------------------------------------------------------------------------------------
// messages

// concMsg turns an abstract message into the real one. The returned account names are the accounts
// whose signatures the message requires, in GetSigners order.
func (c *Chain) concMsg(m M) (sdk.Msg, error) {
	switch str(m, "type") {
	case "aol.CreateTopic":
		return &aoltypes.MsgCreateTopicRequest{TopicName: conc(topicDict, str(m, "topic")), Description: longv(str(m, "desc")), OwnerAddress: c.mbech(str(m, "owner"))}, nil
	case "aol.AddWriter":
		return &aoltypes.MsgAddWriterRequest{TopicName: conc(topicDict, str(m, "topic")), Moniker: str(m, "mon"), Description: str(m, "desc"),
			WriterAddress: c.mbech(str(m, "writer")), OwnerAddress: c.mbech(str(m, "owner"))}, nil
	case "aol.DeleteWriter":
		return &aoltypes.MsgDeleteWriterRequest{TopicName: conc(topicDict, str(m, "topic")), WriterAddress: c.mbech(str(m, "writer")), OwnerAddress: c.mbech(str(m, "owner"))}, nil
	case "aol.AddRecord":
		fp := str(m, "feePayer")
		if fp == "none" {
			fp = ""
		}
		if fp != "" {
			fp = c.mbech(fp)
		}
		return &aoltypes.MsgAddRecordRequest{TopicName: conc(topicDict, str(m, "topic")), Key: []byte(str(m, "key")), Value: []byte(longv(str(m, "val"))),
			WriterAddress: c.mbech(str(m, "writer")), OwnerAddress: c.mbech(str(m, "owner")), FeePayerAddress: fp}, nil
	case "did.Create":
		return &didtypes.MsgCreateDIDRequest{Did: conc(didDict, str(m, "did")), Document: concDoc(m["doc"].(M)),
			VerificationMethodId: vmID(conc(didDict, str(m, "vmDid")), str(m, "vm")), Signature: concProof(m["proof"].(M)), FromAddress: c.mbech(str(m, "from"))}, nil
	case "did.Update":
		return &didtypes.MsgUpdateDIDRequest{Did: conc(didDict, str(m, "did")), Document: concDoc(m["doc"].(M)),
			VerificationMethodId: vmID(conc(didDict, str(m, "vmDid")), str(m, "vm")), Signature: concProof(m["proof"].(M)), FromAddress: c.mbech(str(m, "from"))}, nil
	case "did.Deactivate":
		return &didtypes.MsgDeactivateDIDRequest{Did: conc(didDict, str(m, "did")),
			VerificationMethodId: vmID(conc(didDict, str(m, "vmDid")), str(m, "vm")), Signature: concProof(m["proof"].(M)), FromAddress: c.mbech(str(m, "from"))}, nil
	case "pnft.CreateDenom":
		return &pnfttypes.MsgCreateDenomRequest{Id: conc(denomDict, str(m, "id")), Name: str(m, "name"), Symbol: str(m, "symbol"), Description: str(m, "desc"),
			Uri: str(m, "uri"), UriHash: str(m, "hash"), Data: str(m, "data"), Creator: c.mbech(str(m, "actor"))}, nil
	case "pnft.UpdateDenom":
		return &pnfttypes.MsgUpdateDenomRequest{Id: conc(denomDict, str(m, "id")), Name: str(m, "name"), Symbol: str(m, "symbol"), Description: str(m, "desc"),
			Uri: str(m, "uri"), UriHash: str(m, "hash"), Data: str(m, "data"), Updater: c.mbech(str(m, "actor"))}, nil
	case "pnft.DeleteDenom":
		return &pnfttypes.MsgDeleteDenomRequest{Id: conc(denomDict, str(m, "id")), Remover: c.mbech(str(m, "actor"))}, nil
	case "pnft.TransferDenom":
		return &pnfttypes.MsgTransferDenomRequest{Id: conc(denomDict, str(m, "id")), Sender: c.mbech(str(m, "actor")), Receiver: c.mbech(str(m, "to"))}, nil
	case "pnft.Mint":
		return &pnfttypes.MsgMintPNFTRequest{DenomId: conc(denomDict, str(m, "denom")), Id: conc(tokenDict, str(m, "id")), Name: str(m, "name"), Description: str(m, "desc"),
			Uri: str(m, "uri"), UriHash: str(m, "hash"), Data: str(m, "data"), Creator: c.mbech(str(m, "actor"))}, nil
	case "pnft.Transfer":
		return &pnfttypes.MsgTransferPNFTRequest{DenomId: conc(denomDict, str(m, "denom")), Id: conc(tokenDict, str(m, "id")), Sender: c.mbech(str(m, "actor")), Receiver: c.mbech(str(m, "to"))}, nil
	case "pnft.Burn":
		return &pnfttypes.MsgBurnPNFTRequest{DenomId: conc(denomDict, str(m, "denom")), Id: conc(tokenDict, str(m, "id")), Burner: c.mbech(str(m, "actor"))}, nil
	case "bank.Send":
		return &banktypes.MsgSend{FromAddress: c.bech(str(m, "from")), ToAddress: c.bech(str(m, "to")), Amount: c.coins(m)}, nil
	case "bank.MultiSend":
		// one input, several outputs to the same receiver (amount split in `parts` outputs of amt each)
		amt := c.coins(m)
		parts := int(num(m, "parts"))
		if parts < 1 {
			parts = 1
		}
		total := sdk.NewCoins()
		var outs []banktypes.Output
		for i := 0; i < parts; i++ {
			total = total.Add(amt...)
			outs = append(outs, banktypes.Output{Address: c.bech(str(m, "to")), Coins: amt})
		}
		return &banktypes.MsgMultiSend{Inputs: []banktypes.Input{{Address: c.bech(str(m, "from")), Coins: total}}, Outputs: outs}, nil
	case "vesting.Create":
		// delayed vesting: everything unlocks at abstract time `end`
		return &vestingtypes.MsgCreateVestingAccount{FromAddress: c.bech(str(m, "from")), ToAddress: c.bech(str(m, "to")), Amount: c.coins(m),
			EndTime: blockTime(num(m, "end")).Unix(), Delayed: true}, nil
	case "authz.Grant":
		a := authz.NewGenericAuthorization(msgTypeURL(str(m, "msgType")))
		g, err := authz.NewMsgGrant(c.Accts[str(m, "granter")].Addr, c.Accts[str(m, "grantee")].Addr, a, nil)
		return g, err
	case "authz.Revoke":
		r := authz.NewMsgRevoke(c.Accts[str(m, "granter")].Addr, c.Accts[str(m, "grantee")].Addr, msgTypeURL(str(m, "msgType")))
		return &r, nil
	}
	return nil, fmt.Errorf("unknown abstract message type %q", str(m, "type"))
}

func (c *Chain) coins(m M) sdk.Coins {
	d := str(m, "denom")
	n := num(m, "amt")
	if d == "" {
		d = "umed"
	}
	if d == denom2 {
		return sdk.NewCoins(sdk.NewCoin(denom2, c.Unit2.MulRaw(n)))
	}
	return sdk.NewCoins(sdk.NewInt64Coin(d, n))
}

var msgTypeURLs = map[string]string{
	"aol.CreateTopic":    "/panacea.aol.v2.MsgCreateTopicRequest",
	"aol.AddWriter":      "/panacea.aol.v2.MsgAddWriterRequest",
	"aol.DeleteWriter":   "/panacea.aol.v2.MsgDeleteWriterRequest",
	"aol.AddRecord":      "/panacea.aol.v2.MsgAddRecordRequest",
	"did.Create":         "/panacea.did.v2.MsgCreateDIDRequest",
	"did.Update":         "/panacea.did.v2.MsgUpdateDIDRequest",
	"did.Deactivate":     "/panacea.did.v2.MsgDeactivateDIDRequest",
	"pnft.CreateDenom":   "/panacea.pnft.v2.MsgCreateDenomRequest",
	"pnft.UpdateDenom":   "/panacea.pnft.v2.MsgUpdateDenomRequest",
	"pnft.DeleteDenom":   "/panacea.pnft.v2.MsgDeleteDenomRequest",
	"pnft.TransferDenom": "/panacea.pnft.v2.MsgTransferDenomRequest",
	"pnft.Mint":          "/panacea.pnft.v2.MsgMintPNFTRequest",
	"pnft.Transfer":      "/panacea.pnft.v2.MsgTransferPNFTRequest",
	"pnft.Burn":          "/panacea.pnft.v2.MsgBurnPNFTRequest",
	"bank.Send":          "/cosmos.bank.v1beta1.MsgSend",
}

func msgTypeURL(abstract string) string {
	if u, ok := msgTypeURLs[abstract]; ok {
		return u
	}
	return abstract
}
