package main

// node.go — one node process driven through a crash/restart schedule enumerated by TLC from Node.tla (C10),
// optionally with the v2.2.1 upgrade planned at a height (C19), compared event by event with a twin that never stops.

import (
	"bufio"
	"crypto/sha256"
	"encoding/hex"
	"encoding/json"
	"fmt"
	"io"
	"os"
	"path/filepath"
	"strings"

	abci "github.com/cometbft/cometbft/abci/types"
	dbm "github.com/cometbft/cometbft-db"
	upgradetypes "github.com/cosmos/cosmos-sdk/x/upgrade/types"
)

type NodeJob struct {
	ID        string      `json:"id"`
	Cfg       GenesisOpts `json:"cfg"`
	Prefix    []M         `json:"prefix"`   // transactions of one extra block committed BEFORE the schedule starts (populates every custom store); all must succeed
	Blocks    [][]M       `json:"blocks"`   // block i: list of abstract transactions
	Schedule  []string    `json:"schedule"` // Begin | Deliver | End | Commit | Crash | Restart | RestartInfo
	UpgradeAt int         `json:"upgradeAt"`
	DiskDB    bool        `json:"diskdb"`
}

const upgradeName = "v2.2.1"

func short(b []byte) string {
	s := sha256.Sum256(b)
	return hex.EncodeToString(s[:8])
}

func (c *Chain) committedDigest() string {
	ctx := c.App.BaseApp.NewContext(true, c.header(c.App.LastBlockHeight()))
	d := c.rawDump(ctx, "aol", "did", "pnft", "bank", "acc", "authz", "upgrade")
	return short([]byte(strings.Join(d, "\n")))
}

func (c *Chain) customDigestCommitted() string {
	ctx := c.App.BaseApp.NewContext(true, c.header(c.App.LastBlockHeight()))
	d := c.rawDump(ctx, "aol", "did", "pnft")
	return short([]byte(strings.Join(d, "\n")))
}

func resString(r TxResult) M {
	ev, _ := json.Marshal(r.Events)
	return M{"cs": r.Codespace, "code": int(r.RawCode), "gasUsed": int(r.GasUsed), "gasWanted": int(r.GasWanted), "data": short(r.Data), "events": short(ev)}
}

var noRes = M{"cs": "", "code": -1, "gasUsed": 0, "gasWanted": 0, "data": "", "events": ""}

// nodeChain: fresh chain stopped right after the commit of block 1 (the specification's h = 0).  The process has NOT been restarted:
// the twin built from it is a node that never stopped (a restart that writes to the stores would otherwise be hidden by doing it on both sides).
func nodeChain(opts GenesisOpts, disk bool) (*Chain, error) {
	if disk {
		return nil, fmt.Errorf("disk db not wired")
	}
	opts.StopAfterBlock1 = true
	return NewChain(opts)
}

// nodeChainFor: nodeChain plus the job's populating block (model height 0 is then the commit of that block).
func nodeChainFor(job *NodeJob) (*Chain, error) {
	c, err := nodeChain(job.Cfg, false)
	if err != nil || len(job.Prefix) == 0 {
		return c, err
	}
	if err := c.BeginBlock(); err != nil {
		return nil, err
	}
	for i, tx := range job.Prefix {
		if r := deliverAbstract(c, tx); r.Result != "ok" {
			return nil, fmt.Errorf("populating transaction %d was not accepted: %s %s", i, r.Result, r.Log)
		}
	}
	if _, err := c.EndBlock(); err != nil {
		return nil, err
	}
	c.Commit()
	return c, nil
}

type nodeRunner struct {
	c       *Chain
	job     *NodeJob
	out     *bufio.Writer
	blk     int // index of the block in progress (model h+1)
	k       int
	signed  map[string][]byte // tx bytes are built once per (block, index) attempt
	modelH  int
	crashed bool
}

func (n *nodeRunner) emit(rec M) {
	rec["run"] = n.job.ID
	bz, _ := json.Marshal(rec)
	n.out.Write(bz)
	n.out.WriteByte('\n')
}

// deliverAbstract builds (fresh signatures: sequences may have been rolled back by a crash) and delivers tx.
func deliverAbstract(c *Chain, tx M) TxResult {
	r := &Runner{c: c, b: &Behaviour{}}
	res, _, err := r.deliver(tx)
	if err != nil {
		return TxResult{Result: "error", Log: err.Error()}
	}
	return res
}

func (c *Chain) schedulePlan(height int64) (err error) {
	defer func() {
		if r := recover(); r != nil {
			err = fmt.Errorf("PANIC scheduling plan: %v", r)
		}
	}()
	ctx := c.Ctx()
	return c.App.UpgradeKeeper.ScheduleUpgrade(ctx, upgradetypes.Plan{Name: upgradeName, Height: height})
}

func (c *Chain) upgradeFacts() M {
	ctx := c.App.BaseApp.NewContext(true, c.header(c.App.LastBlockHeight()))
	doneH := c.App.UpgradeKeeper.GetDoneHeight(ctx, upgradeName)
	vm := c.App.UpgradeKeeper.GetModuleVersionMap(ctx)
	want := c.App.ModuleManager.GetVersionMap()
	same := len(vm) == len(want)
	for k, v := range want {
		if vm[k] != v {
			same = false
		}
	}
	_, hasPlan := c.App.UpgradeKeeper.GetUpgradePlan(ctx)
	return M{"doneHeight": int(doneH), "versionMapOk": same, "planPending": hasPlan}
}

// runTwin executes the block history without any crash and returns the per-height oracle table.
func runTwin(job *NodeJob) ([]any, error) {
	c, err := nodeChainFor(job)
	if err != nil {
		return nil, err
	}
	defer c.Close()
	table := []any{M{"h": 0, "hash": hex.EncodeToString(c.App.LastCommitID().Hash), "digest": c.committedDigest(), "custom": c.customDigestCommitted(), "res": []any{}, "up": c.upgradeFacts()}}
	for bi, blk := range job.Blocks {
		if err := c.BeginBlock(); err != nil {
			return nil, fmt.Errorf("twin: %w", err)
		}
		if job.UpgradeAt != 0 && bi+1 == job.UpgradeAt-1 {
			if err := c.schedulePlan(c.Height + 1); err != nil {
				return nil, fmt.Errorf("twin: %w", err)
			}
		}
		res := []any{}
		for _, tx := range blk {
			res = append(res, resString(deliverAbstract(c, tx)))
		}
		if _, err := c.EndBlock(); err != nil {
			return nil, fmt.Errorf("twin: %w", err)
		}
		c.Commit()
		table = append(table, M{"h": bi + 1, "hash": hex.EncodeToString(c.App.LastCommitID().Hash), "digest": c.committedDigest(), "custom": c.customDigestCommitted(), "res": res, "up": c.upgradeFacts()})
	}
	return table, nil
}

func runNodeJob(job *NodeJob, out *bufio.Writer) error {
	twin, err := runTwin(job)
	if err != nil {
		if strings.Contains(err.Error(), "PANIC in BeginBlock") || strings.Contains(err.Error(), "PANIC in EndBlock") {
			// the never-stopped node halts on this history: an observation for the trace specification, not a harness failure
			bz, _ := json.Marshal(M{"ev": "twinfail", "run": job.ID, "upgradeAt": job.UpgradeAt, "err": err.Error()})
			out.Write(bz)
			out.WriteByte('\n')
			return nil
		}
		return err
	}
	// a second twin that never sees the upgrade plan: the custom modules' stores must be the same with and without the upgrade
	plain := *job
	plain.UpgradeAt = 0
	twin0 := twin
	if job.UpgradeAt != 0 {
		if twin0, err = runTwin(&plain); err != nil {
			return err
		}
	}
	for i := range twin {
		twin[i].(M)["customNoUp"] = twin0[i].(M)["custom"]
	}
	c, err := nodeChainFor(job)
	if err != nil {
		return err
	}
	defer c.Close()
	n := &nodeRunner{c: c, job: job, out: out}
	sizes := []any{}
	for _, b := range job.Blocks {
		sizes = append(sizes, len(b))
	}
	n.emit(M{"ev": "init", "blocks": sizes, "upgradeAt": job.UpgradeAt, "twin": twin,
		"lastHeight": 0, "hash": hex.EncodeToString(c.App.LastCommitID().Hash), "digest": c.committedDigest()})
	base := c.App.LastBlockHeight() // real height of model height 0
	for si, name := range job.Schedule {
		rec := M{"ev": "step", "i": si + 1, "name": name, "panic": false, "res": noRes, "err": ""}
		func() {
			defer func() {
				if r := recover(); r != nil {
					rec["panic"] = true
					rec["err"] = fmt.Sprint(r)
				}
			}()
			switch name {
			case "Begin":
				if err := c.BeginBlock(); err != nil {
					rec["panic"], rec["err"] = true, err.Error()
				}
				n.blk = int(c.Height - base)
				n.k = 0
				if job.UpgradeAt != 0 && n.blk == job.UpgradeAt-1 {
					if err := c.schedulePlan(c.Height + 1); err != nil {
						rec["err"] = err.Error()
					}
				}
			case "Deliver":
				tx := job.Blocks[n.blk-1][n.k]
				n.k++
				r := deliverAbstract(c, tx)
				rec["res"] = resString(r)
				rec["panic"] = r.Panic
			case "End":
				if _, err := c.EndBlock(); err != nil {
					rec["panic"], rec["err"] = true, err.Error()
				}
			case "Commit":
				c.Commit()
			case "Crash":
				// the process dies: nothing to do but forget the application object
				c.App = nil
				n.crashed = true
			case "Restart", "RestartInfo":
				info := filepath.Join(c.Home, "data", "upgrade-info.json")
				if name == "RestartInfo" {
					// what the previous binary leaves behind when it halts at the upgrade height
					os.MkdirAll(filepath.Dir(info), 0o755)
					os.WriteFile(info, []byte(fmt.Sprintf(`{"name":"%s","height":%d}`, upgradeName, base+int64(job.UpgradeAt))), 0o644)
				}
				if err := c.Restart(); err != nil {
					rec["panic"], rec["err"] = true, err.Error()
				}
				n.crashed = false
			}
		}()
		if c.App != nil {
			rec["lastHeight"] = int(c.App.LastBlockHeight() - base)
			rec["hash"] = hex.EncodeToString(c.App.LastCommitID().Hash)
			if name == "Commit" || name == "Restart" || name == "RestartInfo" {
				rec["digest"] = c.committedDigest()
				rec["custom"] = c.customDigestCommitted()
				rec["up"] = c.upgradeFacts()
			}
		}
		n.emit(rec)
		if b, _ := rec["panic"].(bool); b && (name == "Restart" || name == "RestartInfo" || name == "Begin" || name == "End") {
			break // the node cannot continue
		}
	}
	return nil
}

func cmdNode(args []string) error {
	if len(args) < 2 {
		return fmt.Errorf("usage: node <jobs.ndjson> <trace-out.ndjson>")
	}
	in, err := os.Open(args[0])
	if err != nil {
		return err
	}
	defer in.Close()
	outF, err := os.Create(args[1])
	if err != nil {
		return err
	}
	defer outF.Close()
	out := bufio.NewWriterSize(outF, 1<<20)
	defer out.Flush()
	rd := bufio.NewReaderSize(in, 1<<20)
	for {
		line, err := rd.ReadBytes('\n')
		if len(strings.TrimSpace(string(line))) > 0 {
			var j NodeJob
			if e := json.Unmarshal(line, &j); e != nil {
				return e
			}
			if e := runNodeJob(&j, out); e != nil {
				return fmt.Errorf("job %s: %w", j.ID, e)
			}
		}
		if err == io.EOF {
			break
		}
		if err != nil {
			return err
		}
	}
	return nil
}

var _ = abci.CodeTypeOK
var _ dbm.DB
