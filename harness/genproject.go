package main

// genproject.go — the REAL exported genesis of the three custom modules, parsed onto the vocabulary of spec/Genesis.tla
// (maps keyed by the "/"-separated parts of the key string, the DID map, the denom and token lists).  Like project.go: dictionary lookup only;
// whatever cannot be named goes to "junk".

import (
	"encoding/json"
	"strings"

	sdk "github.com/cosmos/cosmos-sdk/types"

	aoltypes "github.com/medibloc/panacea-core/v2/x/aol/types"
	didtypes "github.com/medibloc/panacea-core/v2/x/did/types"
	pnfttypes "github.com/medibloc/panacea-core/v2/x/pnft/types"
)

// keyParts: a genesis key string split on the separator; every part named through the dictionaries where possible.
func (c *Chain) keyParts(k string) []any {
	out := []any{}
	for _, p := range strings.Split(k, aoltypes.GenesisKeySeparator) {
		if n, ok := c.byBech[p]; ok {
			out = append(out, n)
		} else if n, ok := topicRev[p]; ok {
			out = append(out, n)
		} else if _, err := sdk.AccAddressFromBech32(p); err == nil {
			out = append(out, c.acctName(p)) // an address outside the dictionary: named like the projection names it
		} else {
			out = append(out, p)
		}
	}
	return out
}

func (c *Chain) ProjectGenesis(appState []byte) (M, error) {
	var gs map[string]json.RawMessage
	if err := json.Unmarshal(appState, &gs); err != nil {
		return nil, err
	}
	junk := []any{}
	var ag aoltypes.GenesisState
	if err := c.cdc().UnmarshalJSON(gs[aoltypes.ModuleName], &ag); err != nil {
		return nil, err
	}
	owners, topics, writers, records := []any{}, []any{}, []any{}, []any{}
	for k, o := range ag.Owners {
		owners = append(owners, M{"k": c.keyParts(k), "n": int(o.TotalTopics)})
	}
	for k, t := range ag.Topics {
		topics = append(topics, M{"k": c.keyParts(k), "desc": t.Description, "nw": int(int64(t.TotalWriters)), "nr": int(int64(t.TotalRecords))})
	}
	for k, w := range ag.Writers {
		writers = append(writers, M{"k": c.keyParts(k), "mon": w.Moniker, "desc": w.Description, "ts": absTime(w.NanoTimestamp)})
	}
	for k, r := range ag.Records {
		records = append(records, M{"k": c.keyParts(k), "key": string(r.Key), "val": string(r.Value), "w": c.acctName(r.WriterAddress), "ts": absTime(r.NanoTimestamp)})
	}
	var dg didtypes.GenesisState
	if err := c.cdc().UnmarshalJSON(gs[didtypes.ModuleName], &dg); err != nil {
		return nil, err
	}
	dids := []any{}
	gfill := 0
	for k, d := range dg.Documents {
		if c.Opts.Bulk > 0 && isIntactFiller(k, d, c.Opts.Bulk) {
			gfill++
			continue
		}
		name, known := didRev[k]
		if d == nil {
			junk = append(junk, "did:"+k+"=nil")
			continue
		}
		doc, ok := absDoc(d.Document)
		if !known || !ok || d.Sequence > 1_000_000 {
			junk = append(junk, "did:"+k)
			continue
		}
		dids = append(dids, M{"k": name, "doc": doc, "seq": int(d.Sequence)})
	}
	var pg pnfttypes.GenesisState
	if err := c.cdc().UnmarshalJSON(gs[pnfttypes.ModuleName], &pg); err != nil {
		return nil, err
	}
	denoms, pnfts := []any{}, []any{}
	for _, d := range pg.Denoms {
		dn, ok := denomRev[d.Id]
		if !ok {
			junk = append(junk, "denom:"+d.Id)
			continue
		}
		denoms = append(denoms, M{"id": dn, "owner": c.acctName(d.Owner), "name": d.Name, "symbol": d.Symbol, "desc": d.Description, "uri": d.Uri, "hash": d.UriHash, "data": d.Data})
	}
	for _, p := range pg.Pnfts {
		dn, ok1 := denomRev[p.DenomId]
		tn, ok2 := tokenRev[p.Id]
		if !ok1 || !ok2 {
			junk = append(junk, "pnft:"+p.DenomId+"/"+p.Id)
			continue
		}
		pnfts = append(pnfts, M{"denom": dn, "id": tn, "name": p.Name, "desc": p.Description, "uri": p.Uri, "hash": p.UriHash, "data": p.Data,
			"creator": c.acctName(p.Creator), "owner": c.acctName(p.Owner), "at": absTime(p.CreatedAt.UnixNano())})
	}
	return M{"aol": M{"owners": owners, "topics": topics, "writers": writers, "records": records}, "did": dids, "denoms": denoms, "pnfts": pnfts,
		"nDenoms": len(pg.Denoms), "nPnfts": len(pg.Pnfts), "junk": junk, "fillers": gfill}, nil
}

// concTime: abstract time index -> nanoseconds (-2 = no timestamp at all)
func concNanos(ts int) int64 {
	if ts == -2 {
		return 0
	}
	return blockTime(int64(ts)).UnixNano()
}

// concGenesis builds the REAL genesis of the three custom modules from an abstract genesis value (spec/GenesisMC.tla, shape of Genesis!Gen
// before MapOf: sets of entries).  The inverse of ProjectGenesis.
func (c *Chain) concGenesis(g M, gs map[string]json.RawMessage) error {
	cdc := c.cdc()
	keyStr := func(parts []any, kinds ...string) string {
		out := []string{}
		for i, p := range parts {
			s := p.(string)
			switch kinds[i] {
			case "acct":
				s = c.bech(s)
			case "topic":
				s = conc(topicDict, s)
			}
			out = append(out, s)
		}
		return strings.Join(out, aoltypes.GenesisKeySeparator)
	}
	ag := aoltypes.DefaultGenesis()
	for _, e := range list(g, "aolOwners") {
		em := e.(M)
		ag.Owners[keyStr(list(em, "k"), "acct")] = &aoltypes.Owner{TotalTopics: uint64(num(em, "v"))}
	}
	for _, e := range list(g, "aolTopics") {
		em := e.(M)
		v := em["v"].(M)
		ag.Topics[keyStr(list(em, "k"), "acct", "topic")] = &aoltypes.Topic{Description: str(v, "desc"), TotalRecords: uint64(num(v, "nr")), TotalWriters: uint64(num(v, "nw"))}
	}
	for _, e := range list(g, "aolWriters") {
		em := e.(M)
		v := em["v"].(M)
		ag.Writers[keyStr(list(em, "k"), "acct", "topic", "acct")] = &aoltypes.Writer{Moniker: str(v, "mon"), Description: str(v, "desc"), NanoTimestamp: concNanos(int(num(v, "ts")))}
	}
	for _, e := range list(g, "aolRecords") {
		em := e.(M)
		v := em["v"].(M)
		ag.Records[keyStr(list(em, "k"), "acct", "topic", "offset")] = &aoltypes.Record{Key: []byte(str(v, "key")), Value: []byte(str(v, "val")),
			WriterAddress: c.bech(str(v, "w")), NanoTimestamp: concNanos(int(num(v, "ts")))}
	}
	gs[aoltypes.ModuleName] = cdc.MustMarshalJSON(ag)
	dg := didtypes.GenesisState{Documents: map[string]*didtypes.DIDDocumentWithSeq{}}
	for _, e := range list(g, "did") {
		em := e.(M)
		v := em["v"].(M)
		dg.Documents[didtypes.GenesisDIDDocumentKey{DID: conc(didDict, str(em, "k"))}.Marshal()] = &didtypes.DIDDocumentWithSeq{Document: concDoc(v["doc"].(M)), Sequence: uint64(num(v, "seq"))}
	}
	gs[didtypes.ModuleName] = cdc.MustMarshalJSON(&dg)
	pg := pnfttypes.DefaultGenesis()
	for _, e := range list(g, "denoms") {
		em := e.(M)
		v := em["v"].(M)
		pg.Denoms = append(pg.Denoms, &pnfttypes.Denom{Id: conc(denomDict, str(em, "id")), Name: str(v, "name"), Symbol: str(v, "symbol"), Description: str(v, "desc"),
			Uri: str(v, "uri"), UriHash: str(v, "hash"), Owner: c.bech(str(v, "owner")), Data: str(v, "data")})
	}
	for _, e := range list(g, "pnfts") {
		em := e.(M)
		v := em["v"].(M)
		pg.Pnfts = append(pg.Pnfts, &pnfttypes.Pnft{DenomId: conc(denomDict, str(em, "denom")), Id: conc(tokenDict, str(em, "id")), Name: str(v, "name"), Description: str(v, "desc"),
			Uri: str(v, "uri"), UriHash: str(v, "hash"), Data: str(v, "data"), Creator: c.bech(str(v, "creator")), Owner: c.bech(str(v, "owner")), CreatedAt: blockTime(int64(num(v, "at")))})
	}
	gs[pnfttypes.ModuleName] = cdc.MustMarshalJSON(pg)
	return nil
}
