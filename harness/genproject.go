package main

// genproject.go — the REAL exported genesis of the three custom modules, parsed onto the vocabulary of spec/Genesis.tla
// (maps keyed by the "/"-separated parts of the key string, the DID map, the denom and token lists).  Like project.go: dictionary lookup only;
// whatever cannot be named goes to "junk".

import (
	"encoding/json"
	"strings"

	aoltypes "github.com/medibloc/panacea-core/v2/x/aol/types"
	didtypes "github.com/medibloc/panacea-core/v2/x/did/types"
	pnfttypes "github.com/medibloc/panacea-core/v2/x/pnft/types"
)

// keyParts: a genesis key string split on the separator; every part named through the dictionaries where possible.
func (c *Chain) keyParts(k string) []any {
	out := []any{}
	for _, p := range strings.Split(k, aoltypes.GenesisKeySeparator) {
		if n, ok := c.byBech[p]; ok {
			out = append(out, n)
		} else if n, ok := topicRev[p]; ok {
			out = append(out, n)
		} else {
			out = append(out, p)
		}
	}
	return out
}

func (c *Chain) ProjectGenesis(appState []byte) (M, error) {
	var gs map[string]json.RawMessage
	if err := json.Unmarshal(appState, &gs); err != nil {
		return nil, err
	}
	junk := []any{}
	var ag aoltypes.GenesisState
	if err := c.cdc().UnmarshalJSON(gs[aoltypes.ModuleName], &ag); err != nil {
		return nil, err
	}
	owners, topics, writers, records := []any{}, []any{}, []any{}, []any{}
	for k, o := range ag.Owners {
		owners = append(owners, M{"k": c.keyParts(k), "n": int(o.TotalTopics)})
	}
	for k, t := range ag.Topics {
		topics = append(topics, M{"k": c.keyParts(k), "desc": t.Description, "nw": int(int64(t.TotalWriters)), "nr": int(int64(t.TotalRecords))})
	}
	for k, w := range ag.Writers {
		writers = append(writers, M{"k": c.keyParts(k), "mon": w.Moniker, "desc": w.Description, "ts": absTime(w.NanoTimestamp)})
	}
	for k, r := range ag.Records {
		records = append(records, M{"k": c.keyParts(k), "key": string(r.Key), "val": string(r.Value), "w": c.acctName(r.WriterAddress), "ts": absTime(r.NanoTimestamp)})
	}
	var dg didtypes.GenesisState
	if err := c.cdc().UnmarshalJSON(gs[didtypes.ModuleName], &dg); err != nil {
		return nil, err
	}
	dids := []any{}
	for k, d := range dg.Documents {
		name, known := didRev[k]
		if d == nil {
			junk = append(junk, "did:"+k+"=nil")
			continue
		}
		doc, ok := absDoc(d.Document)
		if !known || !ok || d.Sequence > 1_000_000 {
			junk = append(junk, "did:"+k)
			continue
		}
		dids = append(dids, M{"k": name, "doc": doc, "seq": int(d.Sequence)})
	}
	var pg pnfttypes.GenesisState
	if err := c.cdc().UnmarshalJSON(gs[pnfttypes.ModuleName], &pg); err != nil {
		return nil, err
	}
	denoms, pnfts := []any{}, []any{}
	for _, d := range pg.Denoms {
		dn, ok := denomRev[d.Id]
		if !ok {
			junk = append(junk, "denom:"+d.Id)
			continue
		}
		denoms = append(denoms, M{"id": dn, "owner": c.acctName(d.Owner), "name": d.Name, "symbol": d.Symbol, "desc": d.Description, "uri": d.Uri, "hash": d.UriHash, "data": d.Data})
	}
	for _, p := range pg.Pnfts {
		dn, ok1 := denomRev[p.DenomId]
		tn, ok2 := tokenRev[p.Id]
		if !ok1 || !ok2 {
			junk = append(junk, "pnft:"+p.DenomId+"/"+p.Id)
			continue
		}
		pnfts = append(pnfts, M{"denom": dn, "id": tn, "name": p.Name, "desc": p.Description, "uri": p.Uri, "hash": p.UriHash, "data": p.Data,
			"creator": c.acctName(p.Creator), "owner": c.acctName(p.Owner), "at": absTime(p.CreatedAt.UnixNano())})
	}
	return M{"aol": M{"owners": owners, "topics": topics, "writers": writers, "records": records}, "did": dids, "denoms": denoms, "pnfts": pnfts,
		"nDenoms": len(pg.Denoms), "nPnfts": len(pg.Pnfts), "junk": junk}, nil
}
