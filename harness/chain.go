package main

// chain.go — bring-up and ABCI driving of the real panacea application.
// The harness *is* the consensus engine: every linearisation point of the chain
// (InitChain, BeginBlock, DeliverTx, EndBlock, Commit, Query, restart) is a call made here.

import (
	"encoding/json"
	"fmt"
	"os"
	"path/filepath"
	"regexp"
	"sort"
	"strconv"
	"strings"
	"time"

	dbm "github.com/cometbft/cometbft-db"
	abci "github.com/cometbft/cometbft/abci/types"
	"github.com/cometbft/cometbft/crypto/ed25519"
	"github.com/cometbft/cometbft/libs/log"
	tmproto "github.com/cometbft/cometbft/proto/tendermint/types"
	tmtypes "github.com/cometbft/cometbft/types"
	"github.com/cosmos/cosmos-sdk/baseapp"
	"github.com/cosmos/cosmos-sdk/crypto/keys/secp256k1"
	cryptotypes "github.com/cosmos/cosmos-sdk/crypto/types"
	simtestutil "github.com/cosmos/cosmos-sdk/testutil/sims"
	sdk "github.com/cosmos/cosmos-sdk/types"
	txtypes "github.com/cosmos/cosmos-sdk/types/tx"
	"github.com/cosmos/cosmos-sdk/types/tx/signing"
	authsigning "github.com/cosmos/cosmos-sdk/x/auth/signing"
	authtypes "github.com/cosmos/cosmos-sdk/x/auth/types"
	banktypes "github.com/cosmos/cosmos-sdk/x/bank/types"
	govtypes "github.com/cosmos/cosmos-sdk/x/gov/types"
	govv1 "github.com/cosmos/cosmos-sdk/x/gov/types/v1"
	minttypes "github.com/cosmos/cosmos-sdk/x/mint/types"
	stakingtypes "github.com/cosmos/cosmos-sdk/x/staking/types"

	"github.com/medibloc/panacea-core/v2/app"
	aoltypes "github.com/medibloc/panacea-core/v2/x/aol/types"
	burntypes "github.com/medibloc/panacea-core/v2/x/burn/types"
	pnfttypes "github.com/medibloc/panacea-core/v2/x/pnft/types"
	didtypes "github.com/medibloc/panacea-core/v2/x/did/types"
)

const (
	chainID     = "verif-1"
	stepNanos   = int64(1_000_000_001) // one abstract time unit: 1 s + 1 ns (non-zero nanoseconds on purpose)
	feeUnit     = int64(1000)          // abstract fee 1 = 1000 umed
	initBalance = int64(1_000_000)     // umed per named account
	denom2      = "ubig"
)

var t0 = time.Date(2024, 1, 1, 0, 0, 0, 0, time.UTC)

func init() {
	app.SetConfig()
	sdk.DefaultBondDenom = "umed"
}

type Acct struct {
	Name  string
	Priv  cryptotypes.PrivKey
	Addr  sdk.AccAddress
	Bech  string
	IsKey bool
}

// GenesisOpts selects the variations of the start state that a run asks for.
type GenesisOpts struct {
	Seed        int64             `json:"seed"`
	Mint        bool              `json:"mint"`   // true: inflation on with a short year so that every block mints
	Unit2       string            `json:"unit2"`  // scaling of the second denomination: "1", "1000000", "1000000000000000000000000000000"
	AppState    json.RawMessage   `json:"-"`      // when set: InitChain from this exported app state instead of building one
	ExtraAccts  int               `json:"extra"`  // additional named accounts a5..
	CustomGen   map[string]string `json:"custom"` // module name -> genesis JSON override (aol/did/pnft)
	InitialTime int64             `json:"-"`
	DiskDB      bool              `json:"diskdb"` // goleveldb under the run's scratch home instead of MemDB
	NoFastNode  bool              `json:"nofast"` // the operator's --iavl-disable-fastnode
	StopAfterBlock1 bool          `json:"-"`         // node-level runs: return right after the commit of block 1 (no block 2 begun, no restart done)
	AbsGen      M                 `json:"absgen"`    // an abstract genesis value of spec/GenesisMC.tla for the three custom modules
	PrevRelease bool              `json:"prev"`      // SDK-module state as the previous release's upgrade handler (v2.2.0) left it: staking MinCommissionRate = 3% while
	                                                 // validators created before that still have lower rates (and max rates / change rates that forbid raising them)
	DropGen     []string          `json:"dropgen"`   // genesis sections left out of the file (legal for modules whose genesis is empty, e.g. "upgrade")
	SimFirst    bool              `json:"simfirst"`  // every delivered transaction is first simulated (gas estimation), as clients do
	OldReads    bool              `json:"oldreads"`  // before the views of a step are taken, the same point queries are served at the previous committed height
	Upper       []string          `json:"upper"`     // accounts whose address is spelled in upper case in custom-module message fields
	Bulk        int               `json:"bulk"`      // this many filler entries in the DID registry (genesis), sorting before every DID of the dictionary
	Gov         bool              `json:"gov"`       // short governance voting period, 1umed deposit, and a funded (untracked) proposer account
	LegacyDid   bool              `json:"legacydid"` // genesis holds a registry entry under key dc whose document describes d1 (pre-binding chains)
}

type Chain struct {
	nextTip  string // bech32 of the tipper to put into the next transaction built (set by the replay of a transaction that carries a tip)
	App      *app.App
	DB       dbm.DB
	Home     string
	Opts     GenesisOpts
	Accts    map[string]*Acct
	AcctList []*Acct // key accounts a1..an in name order
	byBech   map[string]string
	Height   int64 // height of the block in progress (or last committed when !InBlock)
	InBlock  bool
	ValAddr  []byte
	Unit2    sdk.Int
	Logger   log.Logger

	lastBegin abci.ResponseBeginBlock
}

func newAcct(name string) *Acct {
	priv := secp256k1.GenPrivKeyFromSecret([]byte("verif-acct-" + name))
	addr := sdk.AccAddress(priv.PubKey().Address())
	return &Acct{Name: name, Priv: priv, Addr: addr, Bech: addr.String(), IsKey: true}
}

func blockTime(h int64) time.Time { return t0.Add(time.Duration(h * stepNanos)) }

// absTime maps a real nanosecond timestamp back to the abstract time index, or -1.
func absTime(nanos int64) int {
	if nanos == 0 {
		return -2 // "no timestamp at all" (only a genesis file can say that)
	}
	d := nanos - t0.UnixNano()
	if d < 0 || d%stepNanos != 0 {
		return -1
	}
	return int(d / stepNanos)
}

func appOptions(home string) simtestutil.AppOptionsMap {
	o := simtestutil.AppOptionsMap{"home": home, "crisis.skip-genesis-invariants": true}
	if os.Getenv("VERIF_IAVL_NOFAST") != "" { // experiment switch: the node operator's --iavl-disable-fastnode
		o["iavl-disable-fastnode"] = true
	}
	return o
}

// newApp builds the application the way the node does (app.New with loadLatest=true).
var noFastNode bool // set per chain (one chain per process at a time in the commands that use it)

func newApp(db dbm.DB, home string, logger log.Logger) *app.App {
	a, err := newAppErr(db, home, logger)
	if err != nil {
		panic(err)
	}
	return a
}

func newAppErr(db dbm.DB, home string, logger log.Logger) (a *app.App, err error) {
	opts := []func(*baseapp.BaseApp){baseapp.SetChainID(chainID)}
	if os.Getenv("VERIF_IAVL_NOFAST") != "" || noFastNode {
		opts = append(opts, baseapp.SetIAVLDisableFastNode(true))
	}
	// exactly what the node does at start-up: app.New with loadLatest = true.  A fatal start-up error (os.Exit in the node) reaches us as a
	// panic through the verif hook app.verifOnFatal; a panic raised by the store loader itself is passed on unchanged.
	defer func() {
		if r := recover(); r != nil {
			if e, ok := r.(error); ok && strings.HasPrefix(e.Error(), "verif: fatal error at application start-up") {
				a, err = nil, fmt.Errorf("error on loading last version: %w", e)
				return
			}
			panic(r)
		}
	}()
	a = app.New(logger, db, nil, true, appOptions(home), opts...)
	return a, nil
}

// NewChain builds a fresh application, runs InitChain, one empty block (height 1) and BeginBlock(2):
// the specification's initial state is "inside block 2" (the first block in which fee distribution runs).
func NewChain(opts GenesisOpts) (*Chain, error) {
	home, err := os.MkdirTemp("", "verif-home-")
	if err != nil {
		return nil, err
	}
	var db dbm.DB = dbm.NewMemDB()
	if opts.DiskDB {
		db, err = dbm.NewGoLevelDB("application", filepath.Join(home, "data"))
		if err != nil {
			return nil, err
		}
	}
	noFastNode = opts.NoFastNode
	c := &Chain{DB: db, Home: home, Opts: opts, Accts: map[string]*Acct{}, byBech: map[string]string{}, Logger: log.NewNopLogger()}
	u2 := opts.Unit2
	if u2 == "" {
		u2 = "1"
	}
	var ok bool
	c.Unit2, ok = sdk.NewIntFromString(u2)
	if !ok {
		return nil, fmt.Errorf("bad unit2 %q", u2)
	}
	n := 4 + opts.ExtraAccts
	for i := 1; i <= n; i++ {
		a := newAcct("a" + strconv.Itoa(i))
		c.Accts[a.Name] = a
		c.AcctList = append(c.AcctList, a)
		c.byBech[a.Bech] = a.Name
	}
	burnAddr := sdk.MustAccAddressFromBech32(burntypes.BurnAddress)
	c.addSpecial("burn", burnAddr)
	c.addSpecial("fee", authtypes.NewModuleAddress(authtypes.FeeCollectorName))
	c.addSpecial("burnmod", authtypes.NewModuleAddress(burntypes.ModuleName))

	c.App = newApp(c.DB, c.Home, c.Logger)

	var appState json.RawMessage
	if opts.AppState != nil {
		appState = opts.AppState
	} else {
		appState, err = c.buildGenesis()
		if err != nil {
			return nil, err
		}
	}
	valPub := ed25519.GenPrivKeyFromSecret([]byte("verif-validator")).PubKey()
	c.ValAddr = valPub.Address()
	cpv := *simtestutil.DefaultConsensusParams
	blk := *cpv.Block
	blk.MaxGas = -1 // no block gas limit: tours fire thousands of transactions into one block
	cpv.Block = &blk
	cp := &cpv
	initTime := blockTime(0)
	if opts.InitialTime != 0 {
		initTime = time.Unix(0, opts.InitialTime).UTC()
	}
	c.App.InitChain(abci.RequestInitChain{
		ChainId:         chainID,
		Time:            initTime,
		ConsensusParams: cp,
		Validators:      []abci.ValidatorUpdate{},
		AppStateBytes:   appState,
		InitialHeight:   1,
	})
	c.Height = 0
	if err := c.BeginBlock(); err != nil { // block 1
		return nil, err
	}
	if _, err := c.EndBlock(); err != nil {
		return nil, err
	}
	c.Commit()
	if opts.StopAfterBlock1 {
		return c, nil
	}
	if err := c.BeginBlock(); err != nil { // block 2
		return nil, err
	}
	return c, nil
}

func (c *Chain) addSpecial(name string, addr sdk.AccAddress) {
	a := &Acct{Name: name, Addr: addr, Bech: addr.String()}
	c.Accts[name] = a
	c.byBech[a.Bech] = name
}

func (c *Chain) Close() {
	if c.Opts.DiskDB && c.DB != nil {
		c.DB.Close()
	}
	if c.Home != "" {
		os.RemoveAll(c.Home)
	}
}

func (c *Chain) buildGenesis() (json.RawMessage, error) {
	cdc := c.App.AppCodec()
	gs := app.ModuleBasics.DefaultGenesis(cdc)
	valPriv := ed25519.GenPrivKeyFromSecret([]byte("verif-validator"))
	val := tmtypes.NewValidator(valPriv.PubKey(), 1)
	valSet := tmtypes.NewValidatorSet([]*tmtypes.Validator{val})

	var genAccs []authtypes.GenesisAccount
	var balances []banktypes.Balance
	// a dedicated delegator account keeps a1.. free of staking side effects
	del := newAcct("delegator")
	genAccs = append(genAccs, authtypes.NewBaseAccount(del.Addr, del.Priv.PubKey(), 0, 0))
	balances = append(balances, banktypes.Balance{Address: del.Bech, Coins: sdk.NewCoins(sdk.NewInt64Coin("umed", 1))})
	for i, a := range c.AcctList {
		genAccs = append(genAccs, authtypes.NewBaseAccount(a.Addr, a.Priv.PubKey(), uint64(i+1), 0))
		balances = append(balances, banktypes.Balance{Address: a.Bech, Coins: sdk.NewCoins(
			sdk.NewInt64Coin("umed", initBalance),
			sdk.NewCoin(denom2, c.Unit2.MulRaw(1000)),
		)})
	}
	if c.Opts.Gov {
		f := newAcct("govfunder")
		genAccs = append(genAccs, authtypes.NewBaseAccount(f.Addr, f.Priv.PubKey(), uint64(len(c.AcctList)+1), 0))
		balances = append(balances, banktypes.Balance{Address: f.Bech, Coins: sdk.NewCoins(sdk.NewInt64Coin("umed", 10*initBalance))})
	}
	gs, err := simtestutil.GenesisStateWithValSet(cdc, gs, valSet, genAccs, balances...)
	if err != nil {
		return nil, err
	}
	if c.Opts.PrevRelease {
		var sg stakingtypes.GenesisState
		cdc.MustUnmarshalJSON(gs[stakingtypes.ModuleName], &sg)
		sg.Params.MinCommissionRate = sdk.NewDecWithPrec(3, 2)
		gs[stakingtypes.ModuleName] = cdc.MustMarshalJSON(&sg)
	}
	if c.Opts.Gov {
		var gg govv1.GenesisState
		cdc.MustUnmarshalJSON(gs[govtypes.ModuleName], &gg)
		vp := time.Duration(govDelay * stepNanos)
		gg.Params.VotingPeriod = &vp
		gg.Params.MinDeposit = sdk.NewCoins(sdk.NewInt64Coin("umed", 1))
		gs[govtypes.ModuleName] = cdc.MustMarshalJSON(&gg)
	}
	// mint: either off (exact accounting) or visibly on (every block mints a few hundred umed)
	var mintGen minttypes.GenesisState
	cdc.MustUnmarshalJSON(gs[minttypes.ModuleName], &mintGen)
	mintGen.Params.MintDenom = "umed"
	if c.Opts.Mint {
		mintGen.Params.BlocksPerYear = 1000
	} else {
		mintGen.Minter.Inflation = sdk.ZeroDec()
		mintGen.Params.InflationMin = sdk.ZeroDec()
		mintGen.Params.InflationMax = sdk.ZeroDec()
		mintGen.Params.InflationRateChange = sdk.ZeroDec()
	}
	gs[minttypes.ModuleName] = cdc.MustMarshalJSON(&mintGen)
	if c.Opts.LegacyDid {
		doc := concDoc(M{"id": "d1", "vms": []any{M{"n": "v1", "key": "k1", "type": "es19"}}, "auth": []any{M{"n": "v1", "ded": false, "key": "", "type": ""}}, "asrt": []any{}, "ex": ""})
		dg := didtypes.GenesisState{Documents: map[string]*didtypes.DIDDocumentWithSeq{
			didtypes.GenesisDIDDocumentKey{DID: didDict["dc"]}.Marshal(): {Document: doc, Sequence: 0}}}
		gs[didtypes.ModuleName] = cdc.MustMarshalJSON(&dg)
	}
	if c.Opts.AbsGen != nil {
		if err := c.concGenesis(c.Opts.AbsGen, gs); err != nil {
			return nil, err
		}
	}
	if c.Opts.Bulk > 0 {
		var dg didtypes.GenesisState
		cdc.MustUnmarshalJSON(gs[didtypes.ModuleName], &dg)
		if dg.Documents == nil {
			dg.Documents = map[string]*didtypes.DIDDocumentWithSeq{}
		}
		for i := 0; i < c.Opts.Bulk; i++ {
			dg.Documents[didtypes.GenesisDIDDocumentKey{DID: fillerDID(i)}.Marshal()] = fillerDoc(i)
		}
		gs[didtypes.ModuleName] = cdc.MustMarshalJSON(&dg)
	}
	if c.Opts.Bulk > 0 {
		// more entries than any default page size in every custom store, all owned by a4 (an account the bulk configurations leave out of their alphabet):
		// topics f000.. (f000 with that many writers and records), denoms f000.. (f000 with that many tokens g000..)
		n := c.Opts.Bulk
		if n > maxBulk {
			n = maxBulk
		}
		a4 := c.Accts["a4"]
		var ag aoltypes.GenesisState
		cdc.MustUnmarshalJSON(gs[aoltypes.ModuleName], &ag)
		if ag.Owners == nil {
			ag.Owners, ag.Topics, ag.Writers, ag.Records = map[string]*aoltypes.Owner{}, map[string]*aoltypes.Topic{}, map[string]*aoltypes.Writer{}, map[string]*aoltypes.Record{}
		}
		sep := aoltypes.GenesisKeySeparator
		ag.Owners[a4.Bech] = &aoltypes.Owner{TotalTopics: uint64(n)}
		for i := 0; i < n; i++ {
			t := fmt.Sprintf("f%03d", i)
			tp := &aoltypes.Topic{}
			if i == 0 {
				tp.TotalWriters, tp.TotalRecords = uint64(n), uint64(n)
			}
			ag.Topics[a4.Bech+sep+t] = tp
			// address lengths other than 20 bytes among the bulk writers (32 = module / derived accounts, 21 and 19 = neighbours of the usual length):
			// every length the address format admits is a writer the listings must name in full
			wl := 20
			switch i % 10 {
			case 3:
				wl = 32
			case 6:
				wl = 21
			case 8:
				wl = 19
			}
			w := sdk.AccAddress([]byte(fmt.Sprintf("verif-bulk-wr-%03d----------------", i))[:wl])
			ag.Writers[a4.Bech+sep+"f000"+sep+w.String()] = &aoltypes.Writer{Moniker: "m", NanoTimestamp: blockTime(1).UnixNano()}
			ag.Records[a4.Bech+sep+"f000"+sep+strconv.Itoa(i)] = &aoltypes.Record{Key: []byte("k"), Value: []byte(t), WriterAddress: w.String(), NanoTimestamp: blockTime(1).UnixNano()}
		}
		gs[aoltypes.ModuleName] = cdc.MustMarshalJSON(&ag)
		var pg pnfttypes.GenesisState
		cdc.MustUnmarshalJSON(gs[pnfttypes.ModuleName], &pg)
		for i := 0; i < n; i++ {
			pg.Denoms = append(pg.Denoms, &pnfttypes.Denom{Id: fmt.Sprintf("f%03d", i), Name: "x", Symbol: "S", Owner: a4.Bech})
			pg.Pnfts = append(pg.Pnfts, &pnfttypes.Pnft{DenomId: "f000", Id: fmt.Sprintf("g%03d", i), Name: "x", Uri: "u", Creator: a4.Bech, Owner: a4.Bech, CreatedAt: blockTime(1)})
		}
		gs[pnfttypes.ModuleName] = cdc.MustMarshalJSON(&pg)
	}
	for mod, js := range c.Opts.CustomGen {
		gs[mod] = json.RawMessage(js)
	}
	for _, mod := range c.Opts.DropGen {
		delete(gs, mod)
	}
	return json.MarshalIndent(gs, "", " ")
}

func (c *Chain) header(h int64) tmproto.Header {
	return tmproto.Header{ChainID: chainID, Height: h, Time: blockTime(h), ProposerAddress: c.ValAddr}
}

func (c *Chain) BeginBlock() (err error) {
	defer func() {
		if r := recover(); r != nil {
			err = fmt.Errorf("PANIC in BeginBlock: %v", r)
		}
	}()
	c.Height++
	c.lastBegin = c.App.BeginBlock(abci.RequestBeginBlock{Header: c.header(c.Height)})
	c.InBlock = true
	return nil
}

func (c *Chain) EndBlock() (res abci.ResponseEndBlock, err error) {
	defer func() {
		if r := recover(); r != nil {
			err = fmt.Errorf("PANIC in EndBlock: %v", r)
		}
	}()
	res = c.App.EndBlock(abci.RequestEndBlock{Height: c.Height})
	return res, nil
}

func (c *Chain) Commit() []byte {
	r := c.App.Commit()
	c.InBlock = false
	return r.Data
}

// Restart drops the application object without committing and re-opens the same database.
func (c *Chain) Restart() (err error) {
	defer func() {
		if r := recover(); r != nil {
			err = fmt.Errorf("PANIC in restart: %v", r)
		}
	}()
	a, err := newAppErr(c.DB, c.Home, c.Logger)
	if err != nil {
		return err
	}
	c.App = a
	c.Height = c.App.LastBlockHeight()
	c.InBlock = false
	return nil
}

// Ctx returns a context on the state of the block in progress (deliver state) when inside a block,
// otherwise on the last committed state. It is used for raw store projection only.
func (c *Chain) Ctx() sdk.Context {
	if c.InBlock {
		return c.App.BaseApp.NewContext(false, c.header(c.Height))
	}
	return c.App.BaseApp.NewContext(true, c.header(c.Height))
}

// ---------------------------------------------------------------------------------------------
// transactions

type TxResult struct {
	Result    string // ok | ante | fail
	FailIdx   int    // 1-based index of the failing message (fail), else 0
	Code      string // codespace/code ("" when ok)
	Log       string
	Panic     bool
	GasUsed   int64
	GasWanted int64
	Data      []byte
	Events    []abci.Event
	TxBytes   []byte
	MsgResps  [][]byte
	RawCode   uint32
	Codespace string
}

var msgIdxRe = regexp.MustCompile(`message index: (\d+)`)

// BuildTx builds and signs a transaction. signers[i] is the account whose *key* signs slot i
// (slot i belongs to required[i]); an entry "" means: sign with a throw-away key.
func (c *Chain) BuildTx(msgs []sdk.Msg, required []*Acct, signKeys []cryptotypes.PrivKey, feeUmed int64, mode signing.SignMode, extraFee ...sdk.Coin) ([]byte, error) {
	txCfg := c.App.TxConfig()
	b := txCfg.NewTxBuilder()
	if err := b.SetMsgs(msgs...); err != nil {
		return nil, err
	}
	b.SetGasLimit(5_000_000)
	feeCoins := sdk.NewCoins()
	if feeUmed > 0 {
		feeCoins = feeCoins.Add(sdk.NewInt64Coin("umed", feeUmed))
	}
	for _, co := range extraFee {
		if co.IsPositive() {
			feeCoins = feeCoins.Add(co)
		}
	}
	if !feeCoins.IsZero() {
		b.SetFeeAmount(feeCoins)
	}
	if c.nextTip != "" {
		// the optional tip of the envelope: names an account that neither signs nor pays on this chain
		b.SetTip(&txtypes.Tip{Tipper: c.nextTip, Amount: sdk.NewCoins(sdk.NewInt64Coin("umed", 5*feeUnit))})
		c.nextTip = ""
	}
	ctx := c.Ctx()
	type sd struct {
		num, seq uint64
		pub      cryptotypes.PubKey
	}
	sds := make([]sd, len(required))
	sigs := make([]signing.SignatureV2, len(required))
	for i, r := range required {
		acc := c.App.AccountKeeper.GetAccount(ctx, r.Addr)
		var s sd
		if acc != nil {
			s.num, s.seq = acc.GetAccountNumber(), acc.GetSequence()
		}
		if r.Priv != nil {
			s.pub = r.Priv.PubKey()
		} else {
			s.pub = signKeys[i].PubKey()
		}
		sds[i] = s
		sigs[i] = signing.SignatureV2{PubKey: s.pub, Data: &signing.SingleSignatureData{SignMode: mode}, Sequence: s.seq}
	}
	if err := b.SetSignatures(sigs...); err != nil {
		return nil, err
	}
	for i, r := range required {
		signerData := authsigning.SignerData{Address: r.Bech, ChainID: chainID, AccountNumber: sds[i].num, Sequence: sds[i].seq, PubKey: sds[i].pub}
		signBytes, err := txCfg.SignModeHandler().GetSignBytes(mode, signerData, b.GetTx())
		if err != nil {
			return nil, err
		}
		sig, err := signKeys[i].Sign(signBytes)
		if err != nil {
			return nil, err
		}
		sigs[i].Data.(*signing.SingleSignatureData).Signature = sig
	}
	if err := b.SetSignatures(sigs...); err != nil {
		return nil, err
	}
	return txCfg.TxEncoder()(b.GetTx())
}

func (c *Chain) DeliverRaw(txBytes []byte) (res TxResult) {
	res.TxBytes = txBytes
	defer func() {
		if r := recover(); r != nil {
			res.Panic = true
			res.Result = "fail"
			res.Log = fmt.Sprintf("PANIC: %v", r)
		}
	}()
	r := c.App.DeliverTx(abci.RequestDeliverTx{Tx: txBytes})
	res = classify(r.Code, r.Codespace, r.Log, r.GasUsed, r.Data, r.Events, txBytes)
	res.GasWanted = r.GasWanted
	return res
}

func classify(code uint32, codespace, logStr string, gasUsed int64, data []byte, events []abci.Event, txBytes []byte) (res TxResult) {
	res.TxBytes = txBytes
	res.Log, res.GasUsed, res.Data, res.Events = logStr, gasUsed, data, events
	res.RawCode, res.Codespace = code, codespace
	if code == 0 {
		res.Result = "ok"
		return
	}
	res.Code = fmt.Sprintf("%s/%d", codespace, code)
	// a panic recovered by baseapp: ErrPanic (code 111222; the codespace is "undefined" when the error is wrapped before registration lookup)
	if code == 111222 || strings.HasPrefix(logStr, "recovered:") {
		res.Panic = true
	}
	if strings.Contains(logStr, "failed to execute message") {
		res.Result = "fail"
		if m := msgIdxRe.FindStringSubmatch(logStr); m != nil {
			i, _ := strconv.Atoi(m[1])
			res.FailIdx = i + 1
		}
	} else {
		res.Result = "ante"
	}
	return
}

func (c *Chain) CheckRaw(txBytes []byte, recheck bool) (res TxResult) {
	defer func() {
		if r := recover(); r != nil {
			res.Panic = true
			res.Log = fmt.Sprintf("PANIC: %v", r)
		}
	}()
	t := abci.CheckTxType_New
	if recheck {
		t = abci.CheckTxType_Recheck
	}
	r := c.App.CheckTx(abci.RequestCheckTx{Tx: txBytes, Type: t})
	return classify(r.Code, r.Codespace, r.Log, r.GasUsed, r.Data, r.Events, txBytes)
}

func (c *Chain) SimulateRaw(txBytes []byte) (res TxResult) {
	defer func() {
		if r := recover(); r != nil {
			res.Panic = true
			res.Log = fmt.Sprintf("PANIC: %v", r)
		}
	}()
	_, _, err := c.App.Simulate(txBytes)
	if err != nil {
		res.Result = "fail"
		res.Log = err.Error()
	} else {
		res.Result = "ok"
	}
	return
}

// Query runs an ABCI query (gRPC path) at a height (0 = latest committed).
func (c *Chain) Query(path string, data []byte, height int64) (r abci.ResponseQuery, panicked bool) {
	defer func() {
		if rec := recover(); rec != nil {
			panicked = true
			r.Log = fmt.Sprintf("PANIC: %v", rec)
			r.Code = 111222
		}
	}()
	r = c.App.Query(abci.RequestQuery{Path: path, Data: data, Height: height})
	if r.Code == 111222 {
		panicked = true
	}
	return
}

func sortedKeys[V any](m map[string]V) []string {
	ks := make([]string, 0, len(m))
	for k := range m {
		ks = append(ks, k)
	}
	sort.Strings(ks)
	return ks
}
