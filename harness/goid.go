package main

import (
	"bytes"
	"runtime"
	"strconv"
)

// goid returns the current goroutine's id (parsed from the stack header; used only to tell the key-store
// hook which scheduled process is calling).
func goid() int64 {
	var buf [64]byte
	n := runtime.Stack(buf[:], false)
	f := bytes.Fields(buf[:n])
	if len(f) < 2 {
		return -1
	}
	id, _ := strconv.ParseInt(string(f[1]), 10, 64)
	return id
}
