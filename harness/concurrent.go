package main

// concurrent.go — C20 snapshot clause: one executor goroutine runs blocks while reader goroutines query current and
// historical heights through the gRPC query path (baseapp.CreateQueryContext + the registered query handlers), and a
// mempool goroutine checks/simulates transactions. Events carry a global atomic sequence number (never wall-clock).
// Under `go build -race` the same run (plus a sweep over ValidateBasic/GetSignBytes) is the data-race detector's input.

import (
	"bufio"
	"encoding/json"
	"fmt"
	"io"
	"os"
	"sort"
	"strings"
	"sync"
	"sync/atomic"

	sdk "github.com/cosmos/cosmos-sdk/types"

	aoltypes "github.com/medibloc/panacea-core/v2/x/aol/types"
	didtypes "github.com/medibloc/panacea-core/v2/x/did/types"
	pnfttypes "github.com/medibloc/panacea-core/v2/x/pnft/types"
)

var dbgMu sync.Mutex
var dbgViews = map[int64]string{}

func minInt(a, b int) int {
	if a < b {
		return a
	}
	return b
}

type ConcJob struct {
	ID      string      `json:"id"`
	Cfg     GenesisOpts `json:"cfg"`
	Blocks  [][]M       `json:"blocks"`
	Noise   []M         `json:"noise"`
	Readers int         `json:"readers"`
	Sweep   bool        `json:"sweep"`
	SweepTxs []M        `json:"sweepTxs"` // extra transactions whose messages the sweep goroutines validate (message shapes the block history lacks)
}

func runConcurrent(job *ConcJob, out *bufio.Writer) error {
	c, err := nodeChain(job.Cfg, false)
	if err != nil {
		return err
	}
	defer c.Close()
	var seq int64
	var evMu sync.Mutex
	var events []M
	add := func(rec M) {
		evMu.Lock()
		events = append(events, rec)
		evMu.Unlock()
	}
	next := func() int64 { return atomic.AddInt64(&seq, 1) }
	vo := ViewOpts{Topics: []string{"t1", "t2"}, Dids: []string{"d1", "d2", "dc"}, Denoms: []string{"n1", "n2"}, Tokens: []string{"i1", "i2"}}
	digestAt := func(h int64) (served int64, dg string, errd bool, panicked bool) {
		defer func() {
			if r := recover(); r != nil {
				panicked = true
			}
		}()
		ctx, err := c.App.CreateQueryContext(h, false)
		if err != nil {
			return 0, "", true, false
		}
		g, it := c.splitDigest(ctx, vo)
		if os.Getenv("VERIF_DEBUG") != "" {
			txt := g + it
			dbgMu.Lock()
			hh := ctx.BlockHeight()
			if prev, ok := dbgViews[hh]; ok && prev != txt {
				fmt.Fprintf(os.Stderr, "MISMATCH height %d (req %d)\n", hh, h)
			} else if !ok {
				dbgViews[hh] = txt
			}
			dbgMu.Unlock()
		}
		// "<digest of single-item answers>/<digest of listings>"
		return ctx.BlockHeight(), short([]byte(g)) + "/" + short([]byte(it)), false, false
	}
	dbgMu.Lock()
	dbgViews = map[int64]string{}
	dbgMu.Unlock()
	base := c.App.LastBlockHeight()
	_, d0, _, _ := digestAt(base)
	mode := "fastnode"
	if job.Cfg.NoFastNode {
		mode = "nofast"
	}
	add(M{"seq": next(), "ev": "start", "height": int(base), "digest": d0, "run": job.ID, "mode": mode})
	var ended int64 = base
	var abciMu sync.Mutex // CometBFT's local ABCI client serialises consensus and mempool calls; the gRPC query path is NOT under it
	done := make(chan struct{})
	var wg sync.WaitGroup
	// readers
	for r := 0; r < job.Readers; r++ {
		wg.Add(1)
		go func(r int) {
			defer wg.Done()
			n := 0
			for {
				select {
				case <-done:
					return
				default:
				}
				var req int64
				if n%3 != 0 {
					e := atomic.LoadInt64(&ended)
					req = base + int64((n*7+r*3))%(e-base+1)
				}
				n++
				add(M{"seq": next(), "ev": "QStart", "reader": r, "req": int(req)})
				served, dg, errd, pan := digestAt(req)
				add(M{"seq": next(), "ev": "QEnd", "reader": r, "req": int(req), "served": int(served), "digest": dg, "err": errd, "panic": pan})
			}
		}(r)
	}
	// mempool noise (serialised with consensus like the local ABCI client does)
	wg.Add(1)
	go func() {
		defer wg.Done()
		rn := &Runner{c: c, b: &Behaviour{}}
		i := 0
		for {
			select {
			case <-done:
				return
			default:
			}
			if len(job.Noise) == 0 {
				return
			}
			abciMu.Lock()
			bz, _, _, early, err := rn.buildTx(job.Noise[i%len(job.Noise)])
			if err == nil && early == nil {
				if i%2 == 0 {
					c.CheckRaw(bz, false)
				} else {
					c.SimulateRaw(bz)
				}
			}
			abciMu.Unlock()
			i++
		}
	}()
	// sweep: stateless code of the custom modules from several goroutines (input of the race detector)
	if job.Sweep {
		for g := 0; g < 4; g++ {
			wg.Add(1)
			g := g
			go func() {
				defer wg.Done()
				for iter := 0; ; iter++ {
					select {
					case <-done:
						return
					default:
					}
					// fresh values in every string field that code might be tempted to memoise (a new key type, topic name, moniker, denom id per iteration
					// and goroutine): a cache keyed by input and shared without a lock is written on every call, from four goroutines
					freshProbe(c, g, iter)
					for _, blk := range append(append([][]M{}, job.Blocks...), job.SweepTxs) {
						for _, tx := range blk {
							for _, m := range list(tx, "msgs") {
								msg, err := c.concMsg(m.(M))
								if err != nil {
									continue
								}
								func() {
									defer func() { recover() }()
									_ = msg.ValidateBasic()
									if lm, ok := msg.(interface{ GetSignBytes() []byte }); ok {
										_ = lm.GetSignBytes()
									}
									_ = msg.GetSigners()
								}()
							}
						}
					}
				}
			}()
		}
	}
	// executor
	var execErr error
	for _, blk := range job.Blocks {
		abciMu.Lock()
		if err := c.BeginBlock(); err != nil {
			execErr = err
			abciMu.Unlock()
			break
		}
		abciMu.Unlock()
		for _, tx := range blk {
			abciMu.Lock()
			deliverAbstract(c, tx)
			abciMu.Unlock()
		}
		abciMu.Lock()
		if _, err := c.EndBlock(); err != nil {
			execErr = err
			abciMu.Unlock()
			break
		}
		h := c.Height
		add(M{"seq": next(), "ev": "CommitStart", "height": int(h)})
		c.Commit()
		_, dg, _, _ := digestAt(h)
		atomic.StoreInt64(&ended, h)
		add(M{"seq": next(), "ev": "CommitEnd", "height": int(h), "digest": dg})
		abciMu.Unlock()
	}
	close(done)
	wg.Wait()
	if execErr != nil {
		return execErr
	}
	sort.Slice(events, func(i, j int) bool { return events[i]["seq"].(int64) < events[j]["seq"].(int64) })
	for _, e := range events {
		bz, _ := json.Marshal(e)
		out.Write(bz)
		out.WriteByte('\n')
	}
	return nil
}

func cmdConcurrent(args []string) error {
	if len(args) < 2 {
		return fmt.Errorf("usage: concurrent <jobs.ndjson> <trace-out.ndjson>")
	}
	in, err := os.Open(args[0])
	if err != nil {
		return err
	}
	defer in.Close()
	outF, err := os.Create(args[1])
	if err != nil {
		return err
	}
	defer outF.Close()
	out := bufio.NewWriterSize(outF, 1<<20)
	defer out.Flush()
	rd := bufio.NewReaderSize(in, 1<<20)
	for {
		line, err := rd.ReadBytes('\n')
		if len(strings.TrimSpace(string(line))) > 0 {
			var j ConcJob
			if e := json.Unmarshal(line, &j); e != nil {
				return e
			}
			if e := runConcurrent(&j, out); e != nil {
				return fmt.Errorf("job %s: %w", j.ID, e)
			}
		}
		if err == io.EOF {
			break
		}
		if err != nil {
			return err
		}
	}
	return nil
}

var _ sdk.Context


// freshProbe runs the stateless code of the custom modules on messages whose string fields have never been seen by this process.
func freshProbe(c *Chain, g, iter int) {
	defer func() { recover() }()
	tag := fmt.Sprintf("%d-%d", g, iter)
	a1 := c.Accts["a1"].Bech
	did := didDict["d1"]
	vm := &didtypes.VerificationMethod{Id: vmID(did, "k"+tag), Type: "VerifKeyType" + tag, Controller: did, PublicKeyBase58: didKeys["k1"].B58}
	doc := &didtypes.DIDDocument{Contexts: &didtypes.JSONStringOrStrings{didtypes.ContextDIDV1, "https://ctx.example/" + tag}, Id: did,
		VerificationMethods: []*didtypes.VerificationMethod{vm}, Authentications: []didtypes.VerificationRelationship{didtypes.NewVerificationRelationship(vm.Id)},
		Services: []*didtypes.Service{{Id: did + "#svc" + tag, Type: "T" + tag, ServiceEndpoint: "https://e.example/" + tag}}}
	msgs := []sdk.Msg{
		&aoltypes.MsgCreateTopicRequest{TopicName: "t" + tag, Description: "d" + tag, OwnerAddress: a1},
		&aoltypes.MsgAddWriterRequest{TopicName: "t" + tag, Moniker: "m" + tag, Description: tag, WriterAddress: a1, OwnerAddress: a1},
		&aoltypes.MsgAddRecordRequest{TopicName: "t" + tag, Key: []byte(tag), Value: []byte(tag), WriterAddress: a1, OwnerAddress: a1},
		&didtypes.MsgCreateDIDRequest{Did: did, Document: doc, VerificationMethodId: vm.Id, Signature: []byte(tag), FromAddress: a1},
		&didtypes.MsgUpdateDIDRequest{Did: did, Document: doc, VerificationMethodId: vm.Id, Signature: []byte(tag), FromAddress: a1},
		&pnfttypes.MsgCreateDenomRequest{Id: "n" + tag, Name: "x" + tag, Symbol: "S" + tag, Creator: a1},
		&pnfttypes.MsgMintPNFTRequest{DenomId: "n" + tag, Id: "i" + tag, Name: "x", Creator: a1},
	}
	for _, m := range msgs {
		func() {
			defer func() { recover() }()
			_ = m.ValidateBasic()
			if lm, ok := m.(interface{ GetSignBytes() []byte }); ok {
				_ = lm.GetSignBytes()
			}
			_ = m.GetSigners()
		}()
	}
	_ = doc.Valid()
}
