package main

// signbytes.go — C14: the real bytes an account signs for each abstract message, in the three enabled sign modes.

import (
	"bufio"
	"encoding/json"
	"fmt"
	"io"
	"os"
	"strings"

	sdk "github.com/cosmos/cosmos-sdk/types"
	"github.com/cosmos/cosmos-sdk/types/tx/signing"
	authsigning "github.com/cosmos/cosmos-sdk/x/auth/signing"
)

// signBytesOf returns the bytes the SIGNER computes from the message value; with node=true, the bytes the NODE's signature verifier computes: the
// transaction is encoded, decoded, and every message has been through ValidateBasic (the ante chain validates before it verifies signatures).
func (c *Chain) signBytesOf(msg sdk.Msg, mode signing.SignMode, node bool, more ...sdk.Msg) (h string, panicked bool) {
	defer func() {
		if r := recover(); r != nil {
			h, panicked = "unavailable", !strings.Contains(fmt.Sprint(r), "LegacyMsg")
		}
	}()
	txCfg := c.App.TxConfig()
	b := txCfg.NewTxBuilder()
	if err := b.SetMsgs(append([]sdk.Msg{msg}, more...)...); err != nil {
		return "unavailable", false
	}
	b.SetGasLimit(200000)
	b.SetFeeAmount(sdk.NewCoins(sdk.NewInt64Coin("umed", 1000)))
	a := c.Accts["a4"] // an account that is never the fee payer of an alphabet message (DIRECT_AUX refuses the fee payer)
	sig := signing.SignatureV2{PubKey: a.Priv.PubKey(), Data: &signing.SingleSignatureData{SignMode: mode}, Sequence: 7}
	if err := b.SetSignatures(sig); err != nil {
		return "unavailable", false
	}
	sd := authsigning.SignerData{Address: a.Bech, ChainID: chainID, AccountNumber: 3, Sequence: 7, PubKey: a.Priv.PubKey()}
	var theTx authsigning.Tx = b.GetTx()
	if node {
		raw, err := txCfg.TxEncoder()(b.GetTx())
		if err != nil {
			return "unavailable", false
		}
		dec, err := txCfg.TxDecoder()(raw)
		if err != nil {
			return "unavailable", false
		}
		for _, m := range dec.GetMsgs() {
			_ = m.ValidateBasic()
		}
		theTx = dec.(authsigning.Tx)
	}
	bz, err := txCfg.SignModeHandler().GetSignBytes(mode, sd, theTx)
	if err != nil {
		return "unavailable", false
	}
	lastSignBytes = bz
	return short(bz) + fmt.Sprintf("-%d", len(bz)), false
}

var lastSignBytes []byte // the raw bytes of the most recent signBytesOf call (single-threaded command)

// aminoFaithful: for the flat x/aol messages the LEGACY_AMINO_JSON sign document must carry the message itself - every field with exactly the value
// the message has (bytes as base64, empty fields omitted) - not a digest, an abbreviation or a normalised form of it.
func aminoFaithful(msg sdk.Msg, signDoc []byte) bool {
	var doc struct {
		Msgs []json.RawMessage `json:"msgs"`
	}
	if json.Unmarshal(signDoc, &doc) != nil || len(doc.Msgs) != 1 {
		return false
	}
	var got, want map[string]any
	if json.Unmarshal(doc.Msgs[0], &got) != nil {
		return false
	}
	bz, err := json.Marshal(msg)
	if err != nil || json.Unmarshal(bz, &want) != nil {
		return false
	}
	a, _ := json.Marshal(got)
	b, _ := json.Marshal(want)
	return string(a) == string(b)
}

func cmdSignBytes(args []string) error {
	if len(args) < 2 {
		return fmt.Errorf("usage: signbytes <cases.ndjson> <obs-out.ndjson>")
	}
	c, err := NewChain(GenesisOpts{})
	if err != nil {
		return err
	}
	defer c.Close()
	in, err := os.Open(args[0])
	if err != nil {
		return err
	}
	defer in.Close()
	outF, err := os.Create(args[1])
	if err != nil {
		return err
	}
	defer outF.Close()
	out := bufio.NewWriterSize(outF, 1<<20)
	defer out.Flush()
	rd := bufio.NewReaderSize(in, 1<<20)
	i := 0
	for {
		line, err := rd.ReadBytes('\n')
		if len(strings.TrimSpace(string(line))) > 0 {
			var cs M
			if e := json.Unmarshal(line, &cs); e != nil {
				return e
			}
			if cs["pair"] != nil {
				// two messages A, B of one type: the four two-message transactions [A,B] [B,A] [A,A] [B,B] must have pairwise different sign bytes in
				// every mode (each message's bytes are embedded in the transaction's: what is signed for a batch names every message of it)
				pr := cs["pair"].([]any)
				rec := M{"ev": "pair", "i": i, "id": str(cs, "id"), "distinct": true, "panic": false, "which": ""}
				for _, md := range []struct {
					name string
					mode signing.SignMode
				}{{"direct", signing.SignMode_SIGN_MODE_DIRECT}, {"aux", signing.SignMode_SIGN_MODE_DIRECT_AUX}, {"amino", signing.SignMode_SIGN_MODE_LEGACY_AMINO_JSON}} {
					seen := map[string]string{}
					for _, combo := range [][2]int{{0, 1}, {1, 0}, {0, 0}, {1, 1}} {
						ma, e1 := c.concMsg(pr[combo[0]].(M))
						mb, e2 := c.concMsg(pr[combo[1]].(M))
						if e1 != nil || e2 != nil {
							return fmt.Errorf("pair case: %v %v", e1, e2)
						}
						h, p := c.signBytesOf(ma, md.mode, false, mb)
						if p {
							rec["panic"] = true
						}
						if h == "unavailable" {
							continue
						}
						tag := fmt.Sprintf("%d%d", combo[0], combo[1])
						if other, dup := seen[h]; dup {
							rec["distinct"], rec["which"] = false, md.name+":"+other+"="+tag
						}
						seen[h] = tag
					}
				}
				bz, _ := json.Marshal(rec)
				out.Write(bz)
				out.WriteByte('\n')
				i++
				if err == io.EOF {
					break
				}
				continue
			}
			m := cs["m"].(M)
			rec := M{"ev": "case", "i": i, "id": str(cs, "id"), "type": str(m, "type"), "akey": str(cs, "akey"), "det": true, "panic": false}
			msg, e := c.concMsg(m)
			if e != nil {
				return e
			}
			for _, md := range []struct {
				name string
				mode signing.SignMode
			}{{"direct", signing.SignMode_SIGN_MODE_DIRECT}, {"aux", signing.SignMode_SIGN_MODE_DIRECT_AUX}, {"amino", signing.SignMode_SIGN_MODE_LEGACY_AMINO_JSON}} {
				h1, p1 := c.signBytesOf(msg, md.mode, false)
				msg2, _ := c.concMsg(m) // a second, independently built value of the same message
				h2, _ := c.signBytesOf(msg2, md.mode, false)
				h3, _ := c.signBytesOf(msg, md.mode, false)
				msg3, _ := c.concMsg(m)
				h4, _ := c.signBytesOf(msg3, md.mode, true) // what the node's verifier computes for the same transaction
				h5, _ := c.signBytesOf(msg3, md.mode, false) // and the signer again, after the node path has handled the value
				rec[md.name] = h1
				if h1 != h2 || h1 != h3 || h1 != h4 || h1 != h5 {
					rec["det"] = false
				}
				if md.name == "amino" && h1 != "unavailable" && strings.HasPrefix(str(m, "type"), "aol.") {
					if _, p := c.signBytesOf(msg, md.mode, false); !p && !aminoFaithful(msg, lastSignBytes) {
						rec["det"] = false // what is signed is not the message
					}
				}
				if p1 {
					rec["panic"] = true
				}
			}
			bz, _ := json.Marshal(rec)
			out.Write(bz)
			out.WriteByte('\n')
			i++
		}
		if err == io.EOF {
			break
		}
		if err != nil {
			return err
		}
	}
	return nil
}
