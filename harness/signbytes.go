package main

// signbytes.go — C14: the real bytes an account signs for each abstract message, in the three enabled sign modes.

import (
	"bufio"
	"encoding/json"
	"fmt"
	"io"
	"os"
	"strings"

	sdk "github.com/cosmos/cosmos-sdk/types"
	"github.com/cosmos/cosmos-sdk/types/tx/signing"
	authsigning "github.com/cosmos/cosmos-sdk/x/auth/signing"
)

func (c *Chain) signBytesOf(msg sdk.Msg, mode signing.SignMode) (h string, panicked bool) {
	defer func() {
		if r := recover(); r != nil {
			h, panicked = "unavailable", !strings.Contains(fmt.Sprint(r), "LegacyMsg")
		}
	}()
	txCfg := c.App.TxConfig()
	b := txCfg.NewTxBuilder()
	if err := b.SetMsgs(msg); err != nil {
		return "unavailable", false
	}
	b.SetGasLimit(200000)
	b.SetFeeAmount(sdk.NewCoins(sdk.NewInt64Coin("umed", 1000)))
	a := c.Accts["a4"] // an account that is never the fee payer of an alphabet message (DIRECT_AUX refuses the fee payer)
	sig := signing.SignatureV2{PubKey: a.Priv.PubKey(), Data: &signing.SingleSignatureData{SignMode: mode}, Sequence: 7}
	if err := b.SetSignatures(sig); err != nil {
		return "unavailable", false
	}
	sd := authsigning.SignerData{Address: a.Bech, ChainID: chainID, AccountNumber: 3, Sequence: 7, PubKey: a.Priv.PubKey()}
	bz, err := txCfg.SignModeHandler().GetSignBytes(mode, sd, b.GetTx())
	if err != nil {
		return "unavailable", false
	}
	return short(bz) + fmt.Sprintf("-%d", len(bz)), false
}

func cmdSignBytes(args []string) error {
	if len(args) < 2 {
		return fmt.Errorf("usage: signbytes <cases.ndjson> <obs-out.ndjson>")
	}
	c, err := NewChain(GenesisOpts{})
	if err != nil {
		return err
	}
	defer c.Close()
	in, err := os.Open(args[0])
	if err != nil {
		return err
	}
	defer in.Close()
	outF, err := os.Create(args[1])
	if err != nil {
		return err
	}
	defer outF.Close()
	out := bufio.NewWriterSize(outF, 1<<20)
	defer out.Flush()
	rd := bufio.NewReaderSize(in, 1<<20)
	i := 0
	for {
		line, err := rd.ReadBytes('\n')
		if len(strings.TrimSpace(string(line))) > 0 {
			var cs M
			if e := json.Unmarshal(line, &cs); e != nil {
				return e
			}
			m := cs["m"].(M)
			rec := M{"ev": "case", "i": i, "id": str(cs, "id"), "type": str(m, "type"), "akey": str(cs, "akey"), "det": true, "panic": false}
			msg, e := c.concMsg(m)
			if e != nil {
				return e
			}
			for _, md := range []struct {
				name string
				mode signing.SignMode
			}{{"direct", signing.SignMode_SIGN_MODE_DIRECT}, {"aux", signing.SignMode_SIGN_MODE_DIRECT_AUX}, {"amino", signing.SignMode_SIGN_MODE_LEGACY_AMINO_JSON}} {
				h1, p1 := c.signBytesOf(msg, md.mode)
				msg2, _ := c.concMsg(m) // a second, independently built value of the same message
				h2, _ := c.signBytesOf(msg2, md.mode)
				h3, _ := c.signBytesOf(msg, md.mode)
				rec[md.name] = h1
				if h1 != h2 || h1 != h3 {
					rec["det"] = false
				}
				if p1 {
					rec["panic"] = true
				}
			}
			bz, _ := json.Marshal(rec)
			out.Write(bz)
			out.WriteByte('\n')
			i++
		}
		if err == io.EOF {
			break
		}
		if err != nil {
			return err
		}
	}
	return nil
}
