package main

// replicas.go — C09: two independently constructed application instances execute the same blocks, each with its
// own schedule of CheckTx / Simulate / Query / clean-restart noise (enumerated by TLC from Replicas.tla).
// Replica A runs in this process; replica B runs in a separate OS process started later with GOMAXPROCS=1.

import (
	sdk "github.com/cosmos/cosmos-sdk/types"
	"bufio"
	"bytes"
	"encoding/base64"
	"encoding/hex"
	"encoding/json"
	"fmt"
	"io"
	"os"
	"os/exec"
	"strings"

	abci "github.com/cometbft/cometbft/abci/types"
	"github.com/cosmos/cosmos-sdk/types/query"
	"github.com/cosmos/gogoproto/proto"

	aoltypes "github.com/medibloc/panacea-core/v2/x/aol/types"
	didtypes "github.com/medibloc/panacea-core/v2/x/did/types"
	pnfttypes "github.com/medibloc/panacea-core/v2/x/pnft/types"
)

type ReplicaJob struct {
	ID     string      `json:"id"`
	Cfg    GenesisOpts `json:"cfg"`
	Blocks [][]M       `json:"blocks"`
	Noise  []M         `json:"noise"`  // noise transactions (abstract), referred to by 1-based index
	SchedA [][]any     `json:"schedA"` // [name] or [name, j]
	SchedB [][]any     `json:"schedB"`
}

// abciQueries asks a fixed set of custom queries through the ABCI Query path at the latest committed height and
// returns a digest of the answers.
func (c *Chain) abciQueries() (string, bool) {
	var sb bytes.Buffer
	panicked := false
	ask := func(path string, req proto.Message) {
		bz, _ := proto.Marshal(req)
		r, p := c.Query(path, bz, 0)
		if p {
			panicked = true
		}
		fmt.Fprintf(&sb, "%s|%d|%s|%x\n", path, r.Code, r.Codespace, r.Value)
	}
	for _, a := range c.AcctList {
		ask("/panacea.aol.v2.Query/Topics", &aoltypes.QueryTopicsRequest{OwnerAddress: a.Bech, Pagination: &query.PageRequest{Limit: 50, CountTotal: true}})
		for _, t := range []string{"t1", "t2"} {
			ask("/panacea.aol.v2.Query/Topic", &aoltypes.QueryTopicRequest{OwnerAddress: a.Bech, TopicName: conc(topicDict, t)})
			ask("/panacea.aol.v2.Query/Writers", &aoltypes.QueryWritersRequest{OwnerAddress: a.Bech, TopicName: conc(topicDict, t)})
			ask("/panacea.aol.v2.Query/Record", &aoltypes.QueryRecordRequest{OwnerAddress: a.Bech, TopicName: conc(topicDict, t), Offset: 0})
		}
		ask("/panacea.pnft.v2.Query/DenomsByOwner", &pnfttypes.QueryDenomsByOwnerRequest{Owner: a.Bech})
	}
	for _, d := range []string{"d1", "d2", "dc"} {
		ask("/panacea.did.v2.Query/DID", &didtypes.QueryDIDRequest{DidBase64: base64.StdEncoding.EncodeToString([]byte(didDict[d]))})
	}
	ask("/panacea.pnft.v2.Query/Denoms", &pnfttypes.QueryDenomsRequest{})
	for _, d := range []string{"n1", "n2"} {
		ask("/panacea.pnft.v2.Query/PNFTs", &pnfttypes.QueryPNFTsRequest{DenomId: conc(denomDict, d)})
	}
	return short(sb.Bytes()), panicked
}

func runReplica(job *ReplicaJob, sched [][]any, rep string, out *bufio.Writer) error {
	c, err := nodeChain(job.Cfg, false)
	if err != nil {
		return err
	}
	defer c.Close()
	emit := func(rec M) {
		rec["run"], rec["rep"] = job.ID, rep
		bz, _ := json.Marshal(rec)
		out.Write(bz)
		out.WriteByte('\n')
	}
	sizes := []any{}
	for _, b := range job.Blocks {
		sizes = append(sizes, len(b))
	}
	emit(M{"ev": "start", "blocks": sizes})
	base := c.App.LastBlockHeight()
	blk, k := 0, 0
	var results []any
	var endEvents string
	r := &Runner{c: c, b: &Behaviour{}}
	for si, e := range sched {
		name := fmt.Sprint(e[0])
		j := 0
		if len(e) > 1 {
			if f, ok := e[1].(float64); ok {
				j = int(f)
			}
		}
		rec := M{"ev": "step", "i": si + 1, "name": name, "j": j, "panic": false, "err": ""}
		func() {
			defer func() {
				if x := recover(); x != nil {
					rec["panic"], rec["err"] = true, fmt.Sprint(x)
				}
			}()
			switch name {
			case "Begin":
				if err := c.BeginBlock(); err != nil {
					rec["panic"], rec["err"] = true, err.Error()
				}
				blk, k = int(c.Height-base), 0
				results = []any{}
			case "Deliver":
				res := deliverAbstract(c, job.Blocks[blk-1][k])
				k++
				results = append(results, resString(res))
				rec["panic"] = res.Panic
			case "End":
				er, err := c.EndBlock()
				if err != nil {
					rec["panic"], rec["err"] = true, err.Error()
				}
				ev, _ := json.Marshal(er.Events)
				endEvents = short(ev)
			case "Commit":
				c.Commit()
				qd, qp := c.abciQueries()
				if qp {
					rec["panic"] = true
				}
				rec["facts"] = M{"hash": hex.EncodeToString(c.App.LastCommitID().Hash), "res": results, "end": endEvents,
					"stores": c.committedDigest(), "queries": qd}
			case "Check", "Recheck", "Simulate":
				if j >= 1 && j <= len(job.Noise) {
					r.c = c
					bz, _, _, early, err := r.buildTx(job.Noise[j-1])
					if err == nil && early == nil {
						var res TxResult
						switch name {
						case "Check":
							res = c.CheckRaw(bz, false)
						case "Recheck":
							res = c.CheckRaw(bz, true)
						default:
							res = c.SimulateRaw(bz)
						}
						rec["panic"] = res.Panic
						rec["noiseResult"] = res.Result + ":" + res.Code
					}
				}
			case "Query":
				_, qp := c.abciQueries()
				rec["panic"] = qp
				c.oddQueries() // read noise with unusual but decodable requests (answers discarded)
			case "Restart":
				if err := c.Restart(); err != nil {
					rec["panic"], rec["err"] = true, err.Error()
				}
			}
		}()
		emit(rec)
	}
	return nil
}

func cmdReplicas(args []string) error {
	if len(args) < 2 {
		return fmt.Errorf("usage: replicas <jobs.ndjson> <trace-out.ndjson>")
	}
	in, err := os.Open(args[0])
	if err != nil {
		return err
	}
	defer in.Close()
	outF, err := os.Create(args[1])
	if err != nil {
		return err
	}
	defer outF.Close()
	out := bufio.NewWriterSize(outF, 1<<20)
	defer out.Flush()
	rd := bufio.NewReaderSize(in, 1<<20)
	self, _ := os.Executable()
	for {
		line, err := rd.ReadBytes('\n')
		if len(strings.TrimSpace(string(line))) > 0 {
			var j ReplicaJob
			if e := json.Unmarshal(line, &j); e != nil {
				return e
			}
			if e := runReplica(&j, j.SchedA, "A", out); e != nil {
				return fmt.Errorf("job %s replica A: %w", j.ID, e)
			}
			// replica B: another process, started later, one OS thread for Go code
			cmd := exec.Command(self, "replica-child")
			cmd.Env = append(os.Environ(), "GOMAXPROCS=1")
			cmd.Stdin = bytes.NewReader(line)
			var so, se bytes.Buffer
			cmd.Stdout, cmd.Stderr = &so, &se
			if e := cmd.Run(); e != nil {
				return fmt.Errorf("job %s replica B process: %v: %s", j.ID, e, se.String())
			}
			out.Write(so.Bytes())
		}
		if err == io.EOF {
			break
		}
		if err != nil {
			return err
		}
	}
	return nil
}

func cmdReplicaChild() error {
	bz, err := io.ReadAll(os.Stdin)
	if err != nil {
		return err
	}
	var j ReplicaJob
	if err := json.Unmarshal(bz, &j); err != nil {
		return err
	}
	out := bufio.NewWriter(os.Stdout)
	defer out.Flush()
	return runReplica(&j, j.SchedB, "B", out)
}

var _ = abci.CodeTypeOK


// oddQueries: read-only requests a replica may happen to serve and another may not - unusual address lengths (1, 2, 19, 21, 32, 255 bytes), empty and
// over-long names, extreme paging.  Whatever they answer, serving them must leave no trace in how the node executes later blocks.
func (c *Chain) oddQueries() {
	defer func() { recover() }()
	ask := func(path string, req proto.Message) {
		bz, _ := proto.Marshal(req)
		c.Query(path, bz, 0)
	}
	for _, n := range []int{1, 2, 19, 21, 32, 255} {
		addr := sdk.AccAddress(bytes.Repeat([]byte{0x41}, n)).String()
		for _, tn := range []string{"", "a", strings.Repeat("t", 70), strings.Repeat("t", 300)} {
			ask("/panacea.aol.v2.Query/Topics", &aoltypes.QueryTopicsRequest{OwnerAddress: addr})
			ask("/panacea.aol.v2.Query/Topic", &aoltypes.QueryTopicRequest{OwnerAddress: addr, TopicName: tn})
			ask("/panacea.aol.v2.Query/Writers", &aoltypes.QueryWritersRequest{OwnerAddress: addr, TopicName: tn})
			ask("/panacea.aol.v2.Query/Writer", &aoltypes.QueryWriterRequest{OwnerAddress: addr, TopicName: tn, WriterAddress: addr})
			ask("/panacea.aol.v2.Query/Record", &aoltypes.QueryRecordRequest{OwnerAddress: addr, TopicName: tn, Offset: 1<<63 + 5})
		}
		ask("/panacea.pnft.v2.Query/DenomsByOwner", &pnfttypes.QueryDenomsByOwnerRequest{Owner: addr})
		ask("/panacea.pnft.v2.Query/PNFTsByDenomOwner", &pnfttypes.QueryPNFTsByDenomOwnerRequest{DenomId: "a", Owner: addr})
	}
	ask("/panacea.aol.v2.Query/Topics", &aoltypes.QueryTopicsRequest{OwnerAddress: c.AcctList[0].Bech, Pagination: &query.PageRequest{Limit: 1, Offset: 1 << 40, Reverse: true}})
	ask("/panacea.did.v2.Query/DID", &didtypes.QueryDIDRequest{DidBase64: "!!"})
	ask("/panacea.did.v2.Query/DID", &didtypes.QueryDIDRequest{DidBase64: base64.StdEncoding.EncodeToString([]byte("did:panacea:"))})
	ask("/panacea.pnft.v2.Query/PNFT", &pnfttypes.QueryPNFTRequest{DenomId: "", Id: ""})
}
