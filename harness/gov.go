package main

// gov.go — the governance route to the burn address (Panacea.tla GovSchedule): a community-pool spend proposal whose recipient is the burn
// address, funded, submitted and voted by accounts the specification does not track.  x/gov executes it in the EndBlock in which the voting
// period ends; the specification says the coins are burned in that very EndBlock.

import (
	"fmt"

	sdk "github.com/cosmos/cosmos-sdk/types"
	"github.com/cosmos/cosmos-sdk/types/tx/signing"
	authtypes "github.com/cosmos/cosmos-sdk/x/auth/types"
	cryptotypes "github.com/cosmos/cosmos-sdk/crypto/types"
	distrtypes "github.com/cosmos/cosmos-sdk/x/distribution/types"
	govtypes "github.com/cosmos/cosmos-sdk/x/gov/types"
	govv1 "github.com/cosmos/cosmos-sdk/x/gov/types/v1"

	burntypes "github.com/medibloc/panacea-core/v2/x/burn/types"
)

const govDelay = 2 // voting period in blocks (GovDelay of the specification)

func (c *Chain) deliverAs(a *Acct, msgs ...sdk.Msg) TxResult {
	bz, err := c.BuildTx(msgs, []*Acct{a}, []cryptotypes.PrivKey{a.Priv}, 0, signing.SignMode_SIGN_MODE_DIRECT)
	if err != nil {
		return TxResult{Result: "error", Log: err.Error()}
	}
	return c.DeliverRaw(bz)
}

// GovSchedule delivers the three transactions of the abstract action in the current block.
func (c *Chain) GovSchedule(amt int64) (bool, string) {
	funder, del := newAcct("govfunder"), newAcct("delegator")
	coins := sdk.NewCoins(sdk.NewInt64Coin("umed", amt))
	spend := &distrtypes.MsgCommunityPoolSpend{Authority: authtypes.NewModuleAddress(govtypes.ModuleName).String(), Recipient: burntypes.BurnAddress, Amount: coins}
	sub, err := govv1.NewMsgSubmitProposal([]sdk.Msg{spend}, sdk.NewCoins(sdk.NewInt64Coin("umed", 1)), funder.Bech, "", "spend", "community pool spend to the burn address")
	if err != nil {
		return false, err.Error()
	}
	id, err := c.App.GovKeeper.GetProposalID(c.Ctx())
	if err != nil {
		return false, err.Error()
	}
	if r := c.deliverAs(funder, distrtypes.NewMsgFundCommunityPool(coins, funder.Addr), sub); r.Result != "ok" {
		return false, fmt.Sprintf("fund+submit: %s %s", r.Result, r.Log)
	}
	if r := c.deliverAs(del, govv1.NewMsgVote(del.Addr, id, govv1.OptionYes, "")); r.Result != "ok" {
		return false, fmt.Sprintf("vote: %s %s", r.Result, r.Log)
	}
	return true, ""
}

// ProjectGovPending: proposals in their voting period that spend from the community pool to the burn address, with the height of the block
// in whose EndBlock they will be executed.
func (c *Chain) ProjectGovPending(ctx sdk.Context) []any {
	out := []any{}
	c.App.GovKeeper.IterateProposals(ctx, func(p govv1.Proposal) bool {
		if p.Status != govv1.StatusVotingPeriod || p.VotingEndTime == nil {
			return false
		}
		msgs, err := p.GetMsgs()
		if err != nil {
			return false
		}
		for _, m := range msgs {
			if sp, ok := m.(*distrtypes.MsgCommunityPoolSpend); ok && sp.Recipient == burntypes.BurnAddress {
				out = append(out, M{"at": absTime(p.VotingEndTime.UnixNano()), "amt": int(sp.Amount.AmountOf("umed").Int64())})
			}
		}
		return false
	})
	return out
}
