package main

// replay.go — executes abstract behaviours (sequences of specification actions) on the real application
// and writes one ndjson trace record per step: the action with its observed result, the projection of
// the real stores, and the real query answers.

import (
	"bufio"
	"encoding/hex"
	"encoding/json"
	"fmt"
	"io"
	"os"
	"sort"
	"strings"

	abci "github.com/cometbft/cometbft/abci/types"
	cryptotypes "github.com/cosmos/cosmos-sdk/crypto/types"
	"github.com/cosmos/cosmos-sdk/crypto/keys/secp256k1"
	sdk "github.com/cosmos/cosmos-sdk/types"
	"github.com/cosmos/cosmos-sdk/types/tx/signing"
	"github.com/cosmos/cosmos-sdk/x/authz"
	"github.com/cosmos/gogoproto/proto"

	aoltypes "github.com/medibloc/panacea-core/v2/x/aol/types"
)

type Behaviour struct {
	ID    string      `json:"id"`
	Cfg   GenesisOpts `json:"cfg"`
	Views string      `json:"views"` // "", "full"
	Steps []M         `json:"steps"`
	Fire  []M         `json:"fire"` // tour mode: after the steps, every one of these transactions is fired at the state reached
}

type Runner struct {
	c      *Chain
	b      *Behaviour
	out    *bufio.Writer
	acked  []M
	vo     ViewOpts
	step   int
	lastPhase string
	rawTxs    [][]byte // bytes of every Deliver of this behaviour, in order (for Redeliver)
	txHex  []string
	panics int
}

var throwaway = secp256k1.GenPrivKeyFromSecret([]byte("verif-throwaway"))

func (r *Runner) emit(ev string, act M, extra M) {
	st := r.c.Project()
	r.vo.Acked = r.acked
	rec := M{"ev": ev, "run": r.b.ID, "i": r.step, "act": act, "views": r.c.Views(r.vo), "acked": toAnyList(r.acked)}
	for k, v := range st {
		rec[k] = v
	}
	for k, v := range extra {
		rec[k] = v
	}
	bz, err := json.Marshal(rec)
	if err != nil {
		panic(err)
	}
	r.out.Write(bz)
	r.out.WriteByte('\n')
}

func toAnyList(l []M) []any {
	out := []any{}
	for _, x := range l {
		out = append(out, x)
	}
	return out
}

func collectNames(steps []M) (topics, denoms, tokens, dids []string) {
	set := map[string]map[string]bool{"t": {}, "n": {}, "i": {}, "d": {}}
	var walk func(v any)
	walk = func(v any) {
		switch x := v.(type) {
		case M:
			// identifiers by the role the field plays in its message (names need no particular prefix: bulk entries are f000.., g000..)
			if ty, ok := x["type"].(string); ok && strings.HasPrefix(ty, "pnft.") {
				if d, ok := x["denom"].(string); ok {
					set["n"][d] = true
					if id, ok := x["id"].(string); ok {
						set["i"][id] = true
					}
				} else if id, ok := x["id"].(string); ok {
					set["n"][id] = true
				}
			}
			for k, e := range x {
				if s, ok := e.(string); ok {
					switch {
					case k == "topic":
						set["t"][s] = true
					case k == "denom" && strings.HasPrefix(s, "n"):
						set["n"][s] = true
					case k == "id" && strings.HasPrefix(s, "n"):
						set["n"][s] = true
					case k == "id" && strings.HasPrefix(s, "i"):
						set["i"][s] = true
					case (k == "did" || k == "id" || k == "vmDid") && strings.HasPrefix(s, "d") && len(s) == 2 && didDict[s] != "":
						set["d"][s] = true
					}
				}
				walk(e)
			}
		case []any:
			for _, e := range x {
				walk(e)
			}
		}
	}
	for _, s := range steps {
		walk(s)
	}
	get := func(k string, dflt []string) []string {
		for _, d := range dflt {
			set[k][d] = true
		}
		return sortedKeys(set[k])
	}
	return get("t", []string{"t1", "t2"}), get("n", []string{"n1", "n2"}), get("i", []string{"i1", "i2"}), get("d", []string{"d1", "d2", "dp"})
}

// RunBehaviour executes one behaviour on a fresh chain.
func RunBehaviour(b *Behaviour, out *bufio.Writer) (err error) {
	c, err := NewChain(b.Cfg)
	if err != nil {
		return err
	}
	defer func() { c.Close() }()
	r := &Runner{c: c, b: b, out: out}
	r.vo.FullPaging = b.Views == "full"
	r.vo.Topics, r.vo.Denoms, r.vo.Tokens, r.vo.Dids = collectNames(b.Steps)
	r.emit("init", M{"name": "Init"}, nil)
	for i, act := range b.Steps {
		r.step = i + 1
		if err := r.doStep(act); err != nil {
			return fmt.Errorf("behaviour %s step %d (%s): %w", b.ID, r.step, str(act, "name"), err)
		}
	}
	if len(b.Fire) > 0 {
		if err := r.tour(b.Fire); err != nil {
			return fmt.Errorf("behaviour %s tour: %w", b.ID, err)
		}
	}
	c = r.c
	return nil
}

// tour: commit the state reached, then fire every transaction of the alphabet at it. A transaction that
// changes the state is undone by dropping the application without committing and re-opening the database
// (the trace records a "reset" so that the next step is again judged from the committed state).
func (r *Runner) tour(fire []M) error {
	if r.c.InBlock && r.lastPhase != "ended" {
		r.step++
		if err := r.doStep(M{"name": "EndBlock"}); err != nil {
			return err
		}
	}
	r.step++
	if err := r.doStep(M{"name": "BeginBlock"}); err != nil {
		return err
	}
	r.emit("mark", M{"name": "Mark"}, nil)
	ackedSnap := append([]M{}, r.acked...)
	for _, tx := range fire {
		r.step++
		before := r.c.rawDump(r.c.Ctx(), "aol", "did", "pnft", "bank", "authz")
		if err := r.doStep(M{"name": "Deliver", "tx": tx}); err != nil {
			return err
		}
		after := r.c.rawDump(r.c.Ctx(), "aol", "did", "pnft", "bank", "authz")
		if !equalStrings(before, after) {
			// undo: crash + restart on the same database, begin the same block again
			if err := r.c.Restart(); err != nil {
				return err
			}
			if err := r.c.BeginBlock(); err != nil {
				return err
			}
			r.acked = append([]M{}, ackedSnap...)
			r.emit("reset", M{"name": "Reset"}, nil)
		}
	}
	return nil
}

func equalStrings(a, b []string) bool {
	if len(a) != len(b) {
		return false
	}
	for i := range a {
		if a[i] != b[i] {
			return false
		}
	}
	return true
}

func (r *Runner) doStep(act M) error {
	c := r.c
	obs := M{}
	for k, v := range act {
		obs[k] = v
	}
	extra := M{}
	switch str(act, "name") {
	case "Deliver":
		tx := act["tx"].(M)
		res, offs, err := r.deliver(tx)
		if err != nil {
			return err
		}
		obs["result"], obs["failIdx"], obs["code"], obs["offs"], obs["panic"] = res.Result, res.FailIdx, res.Code, offs, res.Panic
		extra["real"] = M{"tx": hex.EncodeToString(res.TxBytes), "log": res.Log, "gas": res.GasUsed}
		r.rawTxs = append(r.rawTxs, res.TxBytes)
		if res.Result == "ok" {
			for i, m := range list(tx, "msgs") {
				mm := m.(M)
				if str(mm, "type") == "aol.AddRecord" && i < len(offs) {
					r.acked = append(r.acked, M{"o": str(mm, "owner"), "t": str(mm, "topic"), "n": offs[i], "key": str(mm, "key"), "val": str(mm, "val"),
						"w": str(mm, "writer"), "ts": int(c.Height)})
				}
			}
		}
	case "Redeliver":
		k := int(num(act, "k"))
		if k < 1 || k > len(r.rawTxs) || r.rawTxs[k-1] == nil {
			return fmt.Errorf("Redeliver %d: no such delivery", k)
		}
		res := c.DeliverRaw(r.rawTxs[k-1])
		obs["result"], obs["failIdx"], obs["code"], obs["offs"], obs["panic"] = res.Result, res.FailIdx, res.Code, []any{}, res.Panic
		extra["real"] = M{"log": res.Log}
	case "Noise":
		// mempool / gas-estimation traffic on the check state: CheckTx, ReCheckTx or Simulate of a transaction that is NOT delivered here
		bz, _, _, early, err := r.buildTx(act["tx"].(M))
		if err != nil {
			return err
		}
		if early == nil {
			var nr TxResult
			switch str(act, "kind") {
			case "check":
				nr = c.CheckRaw(bz, false)
			case "recheck":
				nr = c.CheckRaw(bz, true)
			default:
				nr = c.SimulateRaw(bz)
			}
			obs["panic"] = nr.Panic
			if nr.Panic {
				r.panics++
			}
		}
	case "GovSchedule":
		ok, log := c.GovSchedule(int64(num(act, "amt")))
		if !ok {
			return fmt.Errorf("GovSchedule could not be realised (genesis option gov missing?): %s", log)
		}
		obs["ok"] = true
	case "EndBlock":
		supBefore := c.App.BankKeeper.GetSupply(c.Ctx(), "umed").Amount
		due := 0
		for _, p := range c.ProjectGovPending(c.Ctx()) {
			if pm := p.(M); pm["at"].(int) == int(c.Height) {
				due += pm["amt"].(int)
			}
		}
		obs["govDue"] = due // observation only: what governance will send to the burn address inside this EndBlock
		_, err := c.EndBlock()
		obs["halted"] = err != nil
		obs["panic"] = err != nil
		inv := r.invariants()
		obs["invOk"] = inv == ""
		extra["real"] = M{"inv": inv, "err": fmt.Sprint(err), "supBefore": supBefore.String()}
		c.InBlock = true // still before Commit; deliver state readable
		r.emitPhase("ended", obs, extra)
		r.lastPhase = "ended"
		return nil
	case "BeginBlock":
		supBefore := c.App.BankKeeper.GetSupply(c.Ctx(), "umed").Amount
		c.Commit()
		if err := c.BeginBlock(); err != nil {
			obs["panic"] = true
			extra["real"] = M{"err": err.Error()}
		}
		obs["minted"] = int(c.App.BankKeeper.GetSupply(c.Ctx(), "umed").Amount.Sub(supBefore).Int64())
	case "RestartBegin":
		supBefore := c.App.BankKeeper.GetSupply(c.Ctx(), "umed").Amount
		hash1 := c.Commit()
		if err := c.Restart(); err != nil {
			obs["panic"] = true
			extra["real"] = M{"err": err.Error()}
			break
		}
		hash2 := c.App.LastCommitID().Hash
		obs["sameHash"] = hex.EncodeToString(hash1) == hex.EncodeToString(hash2)
		if err := c.BeginBlock(); err != nil {
			obs["panic"] = true
		}
		obs["minted"] = int(c.App.BankKeeper.GetSupply(c.Ctx(), "umed").Amount.Sub(supBefore).Int64())
	case "ExportImportBegin":
		supBefore := c.App.BankKeeper.GetSupply(c.Ctx(), "umed").Amount
		c.Commit()
		rep, nc, err := c.ExportImport(r.vo)
		for k, v := range rep {
			if k == "genesis" {
				extra[k] = v
			} else {
				obs[k] = v
			}
		}
		if err != nil {
			obs["importOk"] = false
			extra["real"] = M{"err": err.Error()}
			// stay on the old chain so the rest of the behaviour is still checked
			if e := c.BeginBlock(); e != nil {
				obs["panic"] = true
			}
		} else {
			obs["importOk"] = true
			old := r.c
			r.c = nc
			old.Close()
			c = nc
		}
		obs["minted"] = int(c.App.BankKeeper.GetSupply(c.Ctx(), "umed").Amount.Sub(supBefore).Int64())
	default:
		return fmt.Errorf("unknown action %q", str(act, "name"))
	}
	r.lastPhase = "in"
	r.emit("step", obs, extra)
	return nil
}

func (r *Runner) emitPhase(phase string, obs M, extra M) {
	st := r.c.Project()
	st["phase"] = phase
	r.vo.Acked = r.acked
	rec := M{"ev": "step", "run": r.b.ID, "i": r.step, "act": obs, "views": r.c.Views(r.vo), "acked": toAnyList(r.acked)}
	for k, v := range st {
		rec[k] = v
	}
	for k, v := range extra {
		rec[k] = v
	}
	bz, _ := json.Marshal(rec)
	r.out.Write(bz)
	r.out.WriteByte('\n')
}

// invariants runs every registered crisis invariant under recover; "" means all hold.
func (r *Runner) invariants() (broken string) {
	defer func() {
		if rec := recover(); rec != nil {
			broken = fmt.Sprint(rec)
		}
	}()
	r.c.App.CrisisKeeper.AssertInvariants(r.c.Ctx())
	return ""
}

// deliver builds the real transaction of an abstract one and delivers it.
// tx: {msgs:[...], signers:[acct...], fee:n, exec:"none"|acct, mode:"direct"|"amino"}
func (r *Runner) deliver(tx M) (TxResult, []any, error) {
	bz, nmsgs, viaExec, early, err := r.buildTx(tx)
	if err != nil {
		return TxResult{}, nil, err
	}
	if early != nil {
		return *early, nil, nil
	}
	if r.c.Opts.SimFirst {
		// the usual client flow: estimate gas by simulating the very transaction that is then broadcast (runs ante + handlers on a branch of the
		// check state; whatever it leaves behind in process memory is there when the transaction is delivered, and later)
		if sr := r.c.SimulateRaw(bz); sr.Panic {
			r.panics++
		}
	}
	res := r.c.DeliverRaw(bz)
	if res.Panic {
		r.panics++
	}
	offs := []any{}
	if res.Result == "ok" {
		offs = decodeOffsets(res.Data, viaExec, nmsgs)
	}
	return res, offs, nil
}

// buildTx builds and signs the real transaction of an abstract one.
func (r *Runner) buildTx(tx M) (bz []byte, nmsgs int, viaExec bool, early *TxResult, err error) {
	c := r.c
	var msgs []sdk.Msg
	for _, m := range list(tx, "msgs") {
		msg, err := c.concMsg(m.(M))
		if err != nil {
			return nil, 0, false, nil, err
		}
		msgs = append(msgs, msg)
	}
	exec := str(tx, "exec")
	wrapped := msgs
	if exec != "" && exec != "none" {
		e := authz.NewMsgExec(c.Accts[exec].Addr, msgs)
		wrapped = []sdk.Msg{&e}
	}
	// required signers in transaction order, de-duplicated (what the SDK's Tx.GetSigners does)
	var required []*Acct
	seen := map[string]bool{}
	var sigErr error
	func() {
		defer func() {
			if rec := recover(); rec != nil {
				sigErr = fmt.Errorf("GetSigners panicked: %v", rec)
			}
		}()
		for _, m := range wrapped {
			for _, s := range m.GetSigners() {
				if seen[s.String()] {
					continue
				}
				seen[s.String()] = true
				name := c.acctName(s.String())
				a, ok := c.Accts[name]
				if !ok {
					a = &Acct{Name: name, Addr: s, Bech: s.String()}
				}
				required = append(required, a)
			}
		}
	}()
	if sigErr != nil {
		return nil, 0, false, &TxResult{Result: "ante", Panic: true, Log: sigErr.Error()}, nil
	}
	signerSet := map[string]bool{}
	var first cryptotypes.PrivKey
	sl := strs(tx, "signers")
	sort.Strings(sl)
	for _, s := range sl {
		signerSet[s] = true
		if first == nil && c.Accts[s] != nil && c.Accts[s].Priv != nil {
			first = c.Accts[s].Priv
		}
	}
	if first == nil {
		first = throwaway
	}
	keys := make([]cryptotypes.PrivKey, len(required))
	for i, a := range required {
		if signerSet[a.Name] && a.Priv != nil {
			keys[i] = a.Priv
		} else {
			keys[i] = first // somebody else's signature in this signer's slot
		}
	}
	mode := signing.SignMode_SIGN_MODE_DIRECT
	if str(tx, "mode") == "amino" {
		mode = signing.SignMode_SIGN_MODE_LEGACY_AMINO_JSON
	}
	if tp := str(tx, "tip"); tp != "" && tp != "none" {
		c.nextTip = c.bech(tp)
	}
	fee2 := sdk.NewCoin(denom2, c.Unit2.MulRaw(int64(num(tx, "fee2")))) // optional second fee coin (absent field = 0)
	bz, err = c.BuildTx(wrapped, required, keys, num(tx, "fee")*feeUnit, mode, fee2)
	if err != nil {
		return nil, 0, false, nil, fmt.Errorf("build tx: %w", err)
	}
	return bz, len(msgs), exec != "" && exec != "none", nil, nil
}

// decodeOffsets extracts, per message, the offset reported by MsgAddRecordResponse (-1 for other messages).
func decodeOffsets(data []byte, viaExec bool, n int) []any {
	out := []any{}
	var td sdk.TxMsgData
	if err := proto.Unmarshal(data, &td); err != nil {
		return out
	}
	var resps [][]byte
	var urls []string
	for _, a := range td.MsgResponses {
		if viaExec {
			var er authz.MsgExecResponse
			if proto.Unmarshal(a.Value, &er) == nil {
				for _, b := range er.Results {
					resps = append(resps, b)
					urls = append(urls, "")
				}
			}
		} else {
			resps = append(resps, a.Value)
			urls = append(urls, a.TypeUrl)
		}
	}
	for i, b := range resps {
		off := -1
		if urls[i] == "/panacea.aol.v2.MsgAddRecordResponse" || (viaExec && len(b) > 0) {
			var ar aoltypes.MsgAddRecordResponse
			if proto.Unmarshal(b, &ar) == nil && (ar.TopicName != "" || urls[i] != "") {
				off = int(ar.Offset)
			}
		}
		out = append(out, off)
	}
	return out
}

// ---------------------------------------------------------------------------------------------

func cmdReplay(args []string) error {
	if len(args) < 2 {
		return fmt.Errorf("usage: replay <behaviours.ndjson> <trace-out.ndjson>")
	}
	in, err := os.Open(args[0])
	if err != nil {
		return err
	}
	defer in.Close()
	outF, err := os.Create(args[1])
	if err != nil {
		return err
	}
	defer outF.Close()
	out := bufio.NewWriterSize(outF, 1<<20)
	defer out.Flush()
	rd := bufio.NewReaderSize(in, 1<<20)
	n := 0
	for {
		line, err := rd.ReadBytes('\n')
		if len(strings.TrimSpace(string(line))) > 0 {
			var b Behaviour
			if e := json.Unmarshal(line, &b); e != nil {
				return fmt.Errorf("behaviour %d: %w", n, e)
			}
			if e := RunBehaviour(&b, out); e != nil {
				return e
			}
			n++
		}
		if err == io.EOF {
			break
		}
		if err != nil {
			return err
		}
	}
	fmt.Fprintf(os.Stderr, "replayed %d behaviours\n", n)
	return nil
}

var _ = abci.CodeTypeOK
