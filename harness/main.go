package main

import (
	"fmt"
	"os"
)

func main() {
	if len(os.Args) < 2 {
		fmt.Fprintln(os.Stderr, "usage: harness <replay|...> args")
		os.Exit(2)
	}
	var err error
	switch os.Args[1] {
	case "replay":
		err = cmdReplay(os.Args[2:])
	case "upgrades":
		err = cmdUpgrades(os.Args[2:])
	case "locks-stress":
		err = cmdLocksStress()
	case "locks-measure":
		err = cmdLocksMeasure()
	case "locks-replay":
		err = cmdLocksReplay(os.Args[2:])
	case "shapes":
		err = cmdShapes(os.Args[2:])
	case "signbytes":
		err = cmdSignBytes(os.Args[2:])
	case "compkey":
		err = cmdCompKey(os.Args[2:])
	case "concurrent":
		err = cmdConcurrent(os.Args[2:])
	case "replicas":
		err = cmdReplicas(os.Args[2:])
	case "replica-child":
		err = cmdReplicaChild()
	case "node":
		err = cmdNode(os.Args[2:])
	default:
		err = fmt.Errorf("unknown command %q", os.Args[1])
	}
	if err != nil {
		fmt.Fprintln(os.Stderr, "ERROR:", err)
		os.Exit(2)
	}
}
