package main

// locks.go — C20 key-store clause: measures the lock program of every public key-store operation path
// (constants of KeyStoreLocks.tla) and replays a deadlock schedule found by TLC on the real key store.

import (
	"encoding/json"
	"fmt"
	"os"
	"path/filepath"
	"sync"
	"time"

	didcrypto "github.com/medibloc/panacea-core/v2/x/did/client/crypto"
)

type ksOp struct {
	Name string
	Run  func(ks *didcrypto.KeyStore, path string)
}

const ksPass = "pw"

var ksKey = []byte("0123456789abcdef0123456789abcdef")

func ksOps() []ksOp {
	return []ksOp{
		{"Save", func(ks *didcrypto.KeyStore, _ string) { ks.Save("addr-new", ksKey, ksPass) }},
		{"Load", func(ks *didcrypto.KeyStore, p string) { ks.Load(p, ksPass) }},
		{"LoadWrongPassword", func(ks *didcrypto.KeyStore, p string) { ks.Load(p, "nope") }},
		{"LoadMissingFile", func(ks *didcrypto.KeyStore, p string) { ks.Load(p+".missing", ksPass) }},
		{"LoadByAddress", func(ks *didcrypto.KeyStore, _ string) { ks.LoadByAddress("addr-1", ksPass) }},
		{"LoadByAddressUnknown", func(ks *didcrypto.KeyStore, _ string) { ks.LoadByAddress("addr-unknown", ksPass) }},
	}
}

func newKS() (*didcrypto.KeyStore, string, string, error) {
	dir, err := os.MkdirTemp("", "verif-ks-")
	if err != nil {
		return nil, "", "", err
	}
	ks, err := didcrypto.NewKeyStore(filepath.Join(dir, "ks"))
	if err != nil {
		return nil, "", "", err
	}
	path, err := ks.Save("addr-1", ksKey, ksPass)
	return ks, path, dir, err
}

// measure runs every operation path alone and derives its lock program from what the mutex looked like
// right before each acquisition and after the call returned.
func cmdLocksMeasure() error {
	ks, path, dir, err := newKS()
	if err != nil {
		return err
	}
	defer os.RemoveAll(dir)
	programs := M{}
	for _, op := range ksOps() {
		type ev struct {
			kind string
			free bool
		}
		var evs []ev
		didcrypto.VerifLockHook = func(k *didcrypto.KeyStore, fn, kind string) {
			evs = append(evs, ev{kind, k.VerifMutexFree()})
		}
		op.Run(ks, path)
		didcrypto.VerifLockHook = nil
		freeAfter := ks.VerifMutexFree()
		// reconstruct: an acquisition made while the mutex is free means everything before was released;
		// one made while it is held is nested (released, innermost first, at the end - unless leaked).
		var prog []any
		var open []string
		closeAll := func() {
			for i := len(open) - 1; i >= 0; i-- {
				prog = append(prog, unlockOf(open[i]))
			}
			open = nil
		}
		for _, e := range evs {
			if e.free {
				closeAll()
			}
			prog = append(prog, e.kind)
			open = append(open, e.kind)
		}
		if freeAfter {
			closeAll()
		} else {
			// something is still held after the call returned: the innermost acquisitions may have been released, the outermost not
			for i := len(open) - 1; i >= 1; i-- {
				prog = append(prog, unlockOf(open[i]))
			}
			// re-open the store for the next measurement: the leaked lock would block everything else
			ks, path, _, err = newKS()
			if err != nil {
				return err
			}
		}
		if len(prog) == 0 {
			prog = []any{}
		}
		programs[op.Name] = prog
	}
	bz, _ := json.Marshal(M{"programs": programs})
	fmt.Println(string(bz))
	return nil
}

func unlockOf(kind string) string {
	if kind == "Lock" {
		return "Unlock"
	}
	return "RUnlock"
}

// replay: {"prog": {"1": "LoadByAddress", ...}, "trace": [[1,"RLock"],[2,"Lock?"],...]}
// Every process is a goroutine running the real operation; the hook parks it before each acquisition until the
// schedule reaches that acquisition. A writer's announcement is awaited by probing that readers are no longer admitted.
func cmdLocksReplay(args []string) error {
	if len(args) < 1 {
		return fmt.Errorf("usage: locks-replay <schedule.json>")
	}
	bz, err := os.ReadFile(args[0])
	if err != nil {
		return err
	}
	var sch struct {
		Prog  map[string]string `json:"prog"`
		Trace [][]any           `json:"trace"`
	}
	if err := json.Unmarshal(bz, &sch); err != nil {
		return err
	}
	ks, path, dir, err := newKS()
	if err != nil {
		return err
	}
	defer os.RemoveAll(dir)
	ops := map[string]ksOp{}
	for _, o := range ksOps() {
		ops[o.Name] = o
	}
	type proc struct {
		gate     chan struct{}
		atGate   chan struct{}
		finished chan struct{}
		done     bool
	}
	procs := map[string]*proc{}
	var mu sync.Mutex
	gid := map[int64]string{}
	_ = gid
	// goroutine-local identity: each goroutine registers its proc under a key passed through a closure
	current := sync.Map{}
	didcrypto.VerifLockHook = func(k *didcrypto.KeyStore, fn, kind string) {
		idv, ok := current.Load(goid())
		if !ok {
			return
		}
		p := procs[idv.(string)]
		p.atGate <- struct{}{}
		<-p.gate
	}
	defer func() { didcrypto.VerifLockHook = nil }()
	for id, name := range sch.Prog {
		p := &proc{gate: make(chan struct{}), atGate: make(chan struct{}, 16), finished: make(chan struct{})}
		procs[id] = p
		op, ok := ops[name]
		if !ok {
			return fmt.Errorf("unknown program %q", name)
		}
		go func(id string, op ksOp, p *proc) {
			current.Store(goid(), id)
			op.Run(ks, path)
			mu.Lock()
			p.done = true
			mu.Unlock()
			close(p.finished)
		}(id, op, p)
	}
	waitGateOrDone := func(p *proc, d time.Duration) string {
		select {
		case <-p.atGate:
			return "gate"
		case <-p.finished:
			return "done"
		case <-time.After(d):
			return "timeout"
		}
	}
	// every process first arrives at its first acquisition (or finishes without locking)
	state := map[string]string{}
	for id, p := range procs {
		state[id] = waitGateOrDone(p, 5*time.Second)
	}
	for _, st := range sch.Trace {
		id := fmt.Sprint(st[0])
		if f, ok := st[0].(float64); ok {
			id = fmt.Sprint(int(f))
		}
		what := fmt.Sprint(st[1])
		p := procs[id]
		switch what {
		case "RLock", "Lock?":
			if state[id] != "gate" {
				continue
			}
			p.gate <- struct{}{} // let it call RLock()/Lock()
			if what == "Lock?" {
				// wait until the writer is holding or parked: readers are refused from then on
				deadline := time.Now().Add(3 * time.Second)
				for ks.VerifReadersAdmitted() && time.Now().Before(deadline) {
					select {
					case <-p.finished:
						deadline = time.Now()
					default:
						time.Sleep(time.Millisecond)
					}
				}
				state[id] = "running"
			} else {
				state[id] = waitGateOrDone(p, 700*time.Millisecond) // acquired and went on, or blocked inside RLock
			}
		default:
			// releases and the second half of Lock() happen by themselves
			if state[id] == "running" || state[id] == "timeout" {
				state[id] = waitGateOrDone(p, 700*time.Millisecond)
			}
		}
	}
	// the model is stuck here: let every parked process make the call it is parked in front of
	for id, p := range procs {
		if state[id] == "gate" {
			select {
			case p.gate <- struct{}{}:
			default:
			}
		}
	}
	time.Sleep(1500 * time.Millisecond)
	mu.Lock()
	stuck := []any{}
	for id, p := range procs {
		if !p.done {
			stuck = append(stuck, id)
		}
	}
	mu.Unlock()
	out, _ := json.Marshal(M{"deadlock": len(stuck) > 0, "stuck": stuck})
	fmt.Println(string(out))
	os.Stdout.Sync()
	os.Exit(0) // goroutines may be blocked forever: leave without waiting for them
	return nil
}

// locks-stress: several goroutines use one key store at once (input for the race detector; bounded, no deadlock expected on a correct tree).
func cmdLocksStress() error {
	ks, path, dir, err := newKS()
	if err != nil {
		return err
	}
	defer os.RemoveAll(dir)
	var wg sync.WaitGroup
	done := make(chan struct{})
	for g := 0; g < 6; g++ {
		wg.Add(1)
		go func(g int) {
			defer wg.Done()
			for i := 0; i < 3; i++ {
				switch (g + i) % 3 {
				case 0:
					ks.Save(fmt.Sprintf("addr-%d-%d", g, i), ksKey, ksPass)
				case 1:
					ks.Load(path, ksPass)
				default:
					ks.LoadByAddress("addr-1", ksPass)
				}
			}
		}(g)
	}
	go func() { wg.Wait(); close(done) }()
	select {
	case <-done:
		fmt.Println(`{"stress":"finished"}`)
	case <-time.After(120 * time.Second):
		fmt.Println(`{"stress":"hung"}`)
	}
	return nil
}
