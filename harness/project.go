package main

// project.go — projection of the real stores onto the specification's variables.
// Deliberately dumb: raw iteration of the module stores + dictionary lookup. Anything that cannot be
// named goes to a per-module "junk" list (never guessed, never dropped).

import (
	"bytes"
	"encoding/hex"
	"fmt"
	"sort"

	"github.com/cosmos/cosmos-sdk/codec"
	sdk "github.com/cosmos/cosmos-sdk/types"
	"github.com/cosmos/cosmos-sdk/types/address"
	authtypes "github.com/cosmos/cosmos-sdk/x/auth/types"
	vestexported "github.com/cosmos/cosmos-sdk/x/auth/vesting/exported"
	"github.com/cosmos/cosmos-sdk/x/authz"
	banktypes "github.com/cosmos/cosmos-sdk/x/bank/types"
	"github.com/cosmos/cosmos-sdk/x/nft"

	aoltypes "github.com/medibloc/panacea-core/v2/x/aol/types"
	didtypes "github.com/medibloc/panacea-core/v2/x/did/types"
	pnfttypes "github.com/medibloc/panacea-core/v2/x/pnft/types"
)

func hx(b []byte) string { return hex.EncodeToString(b) }

// splitCompKey decodes [len][bytes]... without interpreting the components.
func splitCompKey(bz []byte) ([][]byte, bool) {
	var out [][]byte
	i := 0
	for i < len(bz) {
		n := int(bz[i])
		i++
		if i+n > len(bz) {
			return nil, false
		}
		out = append(out, bz[i:i+n])
		i += n
	}
	return out, true
}

func (c *Chain) cdc() codec.Codec { return c.App.AppCodec() }

func (c *Chain) ProjectAol(ctx sdk.Context) M {
	store := ctx.KVStore(c.App.GetKey(aoltypes.StoreKey))
	it := store.Iterator(nil, nil)
	defer it.Close()
	owners, topics, writers, records, junk := []any{}, []any{}, []any{}, []any{}, []any{}
	bad := func(k, v []byte) { junk = append(junk, hx(k)+"="+hx(v)) }
	for ; it.Valid(); it.Next() {
		k, v := it.Key(), it.Value()
		if len(k) == 0 {
			bad(k, v)
			continue
		}
		parts, ok := splitCompKey(k[1:])
		if !ok {
			bad(k, v)
			continue
		}
		switch k[0] {
		case 0x00:
			var o aoltypes.Owner
			if len(parts) != 1 || c.cdc().Unmarshal(v, &o) != nil {
				bad(k, v)
				continue
			}
			owners = append(owners, M{"o": c.acctNameOfAddr(parts[0]), "n": int(o.TotalTopics)})
		case 0x01:
			var t aoltypes.Topic
			if len(parts) != 2 || c.cdc().Unmarshal(v, &t) != nil {
				bad(k, v)
				continue
			}
			topics = append(topics, M{"o": c.acctNameOfAddr(parts[0]), "t": abs(topicRev, string(parts[1])), "desc": t.Description,
				"nw": int(int64(t.TotalWriters)), "nr": int(int64(t.TotalRecords))})
		case 0x02:
			var w aoltypes.Writer
			if len(parts) != 3 || c.cdc().Unmarshal(v, &w) != nil {
				bad(k, v)
				continue
			}
			writers = append(writers, M{"o": c.acctNameOfAddr(parts[0]), "t": abs(topicRev, string(parts[1])), "w": c.acctNameOfAddr(parts[2]),
				"mon": w.Moniker, "desc": w.Description, "ts": absTime(w.NanoTimestamp)})
		case 0x03:
			var r aoltypes.Record
			if len(parts) != 3 || len(parts[2]) != 8 || c.cdc().Unmarshal(v, &r) != nil {
				bad(k, v)
				continue
			}
			off := sdk.BigEndianToUint64(parts[2])
			if off > 1_000_000 {
				bad(k, v)
				continue
			}
			records = append(records, M{"o": c.acctNameOfAddr(parts[0]), "t": abs(topicRev, string(parts[1])), "n": int(off),
				"key": string(r.Key), "val": string(r.Value), "w": c.acctName(r.WriterAddress), "ts": absTime(r.NanoTimestamp)})
		default:
			bad(k, v)
		}
	}
	return M{"owners": owners, "topics": topics, "writers": writers, "records": records, "junk": junk}
}

func (c *Chain) ProjectDid(ctx sdk.Context) M {
	store := ctx.KVStore(c.App.GetKey(didtypes.StoreKey))
	it := store.Iterator(nil, nil)
	defer it.Close()
	cells, junk := []any{}, []any{}
	fillers := 0
	for ; it.Valid(); it.Next() {
		k, v := it.Key(), it.Value()
		var d didtypes.DIDDocumentWithSeq
		if len(k) == 0 || k[0] != 0x00 || c.cdc().UnmarshalLengthPrefixed(v, &d) != nil {
			junk = append(junk, hx(k)+"="+hx(v))
			continue
		}
		if c.Opts.Bulk > 0 && isIntactFiller(string(k[1:]), &d, c.Opts.Bulk) {
			fillers++
			continue
		}
		name, known := didRev[string(k[1:])]
		doc, ok := absDoc(d.Document)
		if !known && ok && d.Sequence <= 1_000_000 {
			// an entry filed under a key outside the dictionary whose document IS nameable: reported as junk (conformance) and kept as a cell
			// under the name "?<key>", so that the state formulas see what the registry really holds under that key
			junk = append(junk, hx(k)+"="+hx(v))
			cells = append(cells, M{"d": "?" + string(k[1:]), "doc": doc, "seq": int(d.Sequence), "nildoc": d.Document == nil})
			continue
		}
		if !known || !ok || d.Sequence > 1_000_000 {
			junk = append(junk, hx(k)+"="+hx(v))
			continue
		}
		cells = append(cells, M{"d": name, "doc": doc, "seq": int(d.Sequence), "nildoc": d.Document == nil})
	}
	return M{"cells": cells, "junk": junk, "fillers": fillers}
}

// ProjectPnft reads the x/nft layout inside the pnft store:
// 0x01 class | 0x02 class 0x00 id -> nft | 0x03 lp(owner) 0x00 class 0x00 id -> 0x01 | 0x04 class 0x00 id -> owner | 0x05 class -> supply
func (c *Chain) ProjectPnft(ctx sdk.Context) M {
	store := ctx.KVStore(c.App.GetKey(pnfttypes.StoreKey))
	it := store.Iterator(nil, nil)
	defer it.Close()
	denoms, tokens, owners, index, supply, junk := []any{}, []any{}, []any{}, []any{}, []any{}, []any{}
	bad := func(k, v []byte) { junk = append(junk, hx(k)+"="+hx(v)) }
	// splitPair splits "class 0x00 id" using the dictionary: the split must be unique and nameable.
	splitPair := func(b []byte) (string, string, bool) {
		var found [][2]string
		for i := 0; i < len(b); i++ {
			if b[i] != 0 {
				continue
			}
			dn, ok1 := denomRev[string(b[:i])]
			tn, ok2 := tokenRev[string(b[i+1:])]
			if ok1 && ok2 {
				found = append(found, [2]string{dn, tn})
			}
		}
		if len(found) != 1 {
			return "", "", false
		}
		return found[0][0], found[0][1], true
	}
	for ; it.Valid(); it.Next() {
		k, v := it.Key(), it.Value()
		if len(k) == 0 {
			bad(k, v)
			continue
		}
		switch k[0] {
		case 0x01:
			var cl nft.Class
			if c.cdc().Unmarshal(v, &cl) != nil || cl.Id != string(k[1:]) || cl.Data == nil {
				bad(k, v)
				continue
			}
			var meta pnfttypes.DenomMeta
			dn, ok := denomRev[cl.Id]
			if !ok || c.cdc().Unmarshal(cl.Data.GetValue(), &meta) != nil {
				bad(k, v)
				continue
			}
			denoms = append(denoms, M{"id": dn, "owner": c.acctName(meta.Owner), "name": cl.Name, "symbol": cl.Symbol, "desc": cl.Description,
				"uri": cl.Uri, "hash": cl.UriHash, "data": meta.Data})
		case 0x02:
			var n nft.NFT
			dn, tn, ok := splitPair(k[1:])
			if !ok || c.cdc().Unmarshal(v, &n) != nil || n.Data == nil {
				bad(k, v)
				continue
			}
			var meta pnfttypes.PNFTMeta
			if c.cdc().Unmarshal(n.Data.GetValue(), &meta) != nil || conc(denomDict, dn) != n.ClassId || conc(tokenDict, tn) != n.Id {
				bad(k, v)
				continue
			}
			tokens = append(tokens, M{"denom": dn, "id": tn, "name": meta.Name, "desc": meta.Description, "uri": n.Uri, "hash": n.UriHash, "data": meta.Data,
				"creator": c.acctName(meta.Creator), "at": absTime(meta.CreatedAt.UnixNano())})
		case 0x03:
			rest := k[1:]
			if len(rest) < 2 || int(rest[0])+2 > len(rest) || rest[1+int(rest[0])] != 0 || !bytes.Equal(v, []byte{0x01}) {
				bad(k, v)
				continue
			}
			owner := sdk.AccAddress(rest[1 : 1+int(rest[0])])
			pair := rest[2+int(rest[0]):]
			dn, tn, ok := splitPair(pair)
			if !ok {
				bad(k, v)
				continue
			}
			index = append(index, M{"owner": c.acctNameOfAddr(owner), "denom": dn, "id": tn})
		case 0x04:
			dn, tn, ok := splitPair(k[1:])
			if !ok || address.Len != 20 && len(v) == 0 {
				bad(k, v)
				continue
			}
			owners = append(owners, M{"denom": dn, "id": tn, "owner": c.acctNameOfAddr(sdk.AccAddress(v))})
		case 0x05:
			dn, ok := denomRev[string(k[1:])]
			if !ok || len(v) != 8 {
				bad(k, v)
				continue
			}
			supply = append(supply, M{"denom": dn, "n": int(sdk.BigEndianToUint64(v))})
		default:
			bad(k, v)
		}
	}
	return M{"denoms": denoms, "tokens": tokens, "owners": owners, "index": index, "supply": supply, "junk": junk}
}

// ProjectBank: balances of the named accounts (two denominations), locked coins, total supply and the
// sum of all other balances ("rest"), so that the accounting identity can be evaluated by the specification.
func (c *Chain) ProjectBank(ctx sdk.Context) M {
	bk := c.App.BankKeeper
	names := sortedKeys(c.Accts)
	bal := []any{}
	junk := []any{}
	scale := func(d string, amt sdk.Int) (int, bool) {
		if d == denom2 {
			if !amt.Mod(c.Unit2).IsZero() {
				return 0, false
			}
			amt = amt.Quo(c.Unit2)
		}
		if !amt.IsInt64() || amt.Int64() > 2_000_000_000 || amt.IsNegative() {
			return 0, false
		}
		return int(amt.Int64()), true
	}
	tracked := map[string]bool{}
	for _, n := range names {
		a := c.Accts[n]
		tracked[a.Bech] = true
		all := bk.GetAllBalances(ctx, a.Addr)
		locked := bk.LockedCoins(ctx, a.Addr)
		spend := bk.SpendableCoins(ctx, a.Addr)
		for _, d := range []string{"umed", denom2} {
			t, ok1 := scale(d, all.AmountOf(d))
			l, ok2 := scale(d, locked.AmountOf(d))
			s, ok3 := scale(d, spend.AmountOf(d))
			if !ok1 || !ok2 || !ok3 {
				junk = append(junk, fmt.Sprintf("%s/%s=%s", n, d, all.AmountOf(d)))
				continue
			}
			bal = append(bal, M{"a": n, "d": d, "total": t, "locked": l, "spendable": s})
		}
		for _, co := range all {
			if co.Denom != "umed" && co.Denom != denom2 {
				junk = append(junk, fmt.Sprintf("%s holds %s", n, co))
			}
		}
	}
	rest := sdk.NewCoins()
	bk.IterateAllBalances(ctx, func(addr sdk.AccAddress, coin sdk.Coin) bool {
		if !tracked[addr.String()] {
			rest = rest.Add(coin)
		}
		return false
	})
	sup := []any{}
	for _, d := range []string{"umed", denom2} {
		s, ok1 := scale(d, bk.GetSupply(ctx, d).Amount)
		r, ok2 := scale(d, rest.AmountOf(d))
		if !ok1 || !ok2 {
			junk = append(junk, fmt.Sprintf("supply/%s", d))
			continue
		}
		sup = append(sup, M{"d": d, "supply": s, "rest": r})
	}
	// vesting schedules of named accounts
	vest := []any{}
	for _, n := range names {
		acc := c.App.AccountKeeper.GetAccount(ctx, c.Accts[n].Addr)
		if va, ok := acc.(vestexported.VestingAccount); ok {
			for _, co := range va.GetOriginalVesting() {
				amt, ok := scale(co.Denom, co.Amount)
				if !ok {
					junk = append(junk, "vesting/"+n)
					continue
				}
				vest = append(vest, M{"a": n, "d": co.Denom, "amt": amt, "end": int(va.GetEndTime() - t0.Unix())})
			}
		}
	}
	ex := []any{}
	for _, n := range names {
		if c.App.AccountKeeper.HasAccount(ctx, c.Accts[n].Addr) {
			ex = append(ex, n)
		}
	}
	return M{"bal": bal, "sup": sup, "vest": vest, "exists": ex, "junk": junk, "pending": c.ProjectGovPending(ctx)}
}

func (c *Chain) ProjectGrants(ctx sdk.Context) []any {
	out := []any{}
	c.App.AuthzKeeper.IterateGrants(ctx, func(granter, grantee sdk.AccAddress, g authz.Grant) bool {
		a, err := g.GetAuthorization()
		t := "?"
		if err == nil {
			t = a.MsgTypeURL()
			for k, v := range msgTypeURLs {
				if v == t {
					t = k
				}
			}
		}
		out = append(out, M{"granter": c.acctNameOfAddr(granter), "grantee": c.acctNameOfAddr(grantee), "msgType": t})
		return false
	})
	return out
}

func (c *Chain) acctSeqs(ctx sdk.Context) []any {
	out := []any{}
	for _, a := range c.AcctList {
		acc := c.App.AccountKeeper.GetAccount(ctx, a.Addr)
		s := 0
		if acc != nil {
			s = int(acc.GetSequence())
		}
		out = append(out, M{"a": a.Name, "seq": s})
	}
	return out
}

// Project assembles the full observed state.
func (c *Chain) Project() M {
	ctx := c.Ctx()
	phase := "idle"
	if c.InBlock {
		phase = "in"
	}
	return M{
		"h":      int(c.Height),
		"phase":  phase,
		"aol":    c.ProjectAol(ctx),
		"did":    c.ProjectDid(ctx),
		"pnft":   c.ProjectPnft(ctx),
		"bank":   c.ProjectBank(ctx),
		"grants": c.ProjectGrants(ctx),
	}
}

// rawDump returns a digest-friendly dump of the custom module stores (used for equality comparisons).
func (c *Chain) rawDump(ctx sdk.Context, stores ...string) []string {
	var out []string
	for _, s := range stores {
		st := ctx.KVStore(c.App.GetKey(s))
		it := st.Iterator(nil, nil)
		for ; it.Valid(); it.Next() {
			out = append(out, s+":"+hx(it.Key())+"="+hx(it.Value()))
		}
		it.Close()
	}
	sort.Strings(out)
	return out
}

var _ = authtypes.ModuleName
var _ = banktypes.ModuleName
